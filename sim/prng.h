// One integer decides everything: splitmix64 to derive streams, xoshiro256** to draw.
#pragma once
#include <cstdint>
#include <cstddef>
static inline uint64_t splitmix64(uint64_t &x) {
    uint64_t z = (x += 0x9e3779b97f4a7c15ULL);
    z = (z ^ (z >> 30)) * 0xbf58476d1ce4e5b9ULL;
    z = (z ^ (z >> 27)) * 0x94d049bb133111ebULL;
    return z ^ (z >> 31);
}
static inline uint64_t mix3(uint64_t a, uint64_t b, uint64_t c) {
    uint64_t s = a * 0x9e3779b97f4a7c15ULL + 0x1234567ULL;
    uint64_t r = splitmix64(s);
    s ^= b * 0xd1342543de82ef95ULL; r ^= splitmix64(s);
    s ^= c * 0xaf251af3b0f025b5ULL; r ^= splitmix64(s);
    return r;
}
struct Rng {
    uint64_t s[4];
    explicit Rng(uint64_t seed = 1) { reseed(seed); }
    void reseed(uint64_t seed) { uint64_t x = seed; for (auto &v : s) v = splitmix64(x); }
    static inline uint64_t rotl(uint64_t x, int k) { return (x << k) | (x >> (64 - k)); }
    uint64_t next() {
        uint64_t r = rotl(s[1] * 5, 7) * 9, t = s[1] << 17;
        s[2] ^= s[0]; s[3] ^= s[1]; s[1] ^= s[2]; s[0] ^= s[3]; s[2] ^= t; s[3] = rotl(s[3], 45);
        return r;
    }
    // uniform in [0,n)
    uint64_t below(uint64_t n) { return n ? next() % n : 0; }
    int range(int lo, int hi) { return lo + (int)below((uint64_t)(hi - lo + 1)); }   // inclusive
    bool chance(double p) { return unit() < p; }
    double unit() { return (next() >> 11) * (1.0 / 9007199254740992.0); }
    double sym() { return 2.0 * unit() - 1.0; }
    template <class T, size_t N> const T &pick(const T (&a)[N]) { return a[below(N)]; }
};
// FNV-1a 64 running hash for event logs (no addresses ever go in).
struct Hash64 {
    uint64_t h = 0xcbf29ce484222325ULL;
    void bytes(const void *p, size_t n) { const unsigned char *c = (const unsigned char *)p; for (size_t i = 0; i < n; i++) { h ^= c[i]; h *= 0x100000001b3ULL; } }
    void u64(uint64_t v) { bytes(&v, 8); }
    void str(const char *s) { while (*s) { h ^= (unsigned char)*s++; h *= 0x100000001b3ULL; } u64(0xff); }
};

#include "runplan.h"

TaskPlan apply_env(const TaskPlan &p, const EnvSpec &e) {
    TaskPlan q = p;
    if (e.fill > 0) q.tuning[5] = e.fill;
    q.garbage = e.garbage;
    for (auto &o : q.ops) {
        if (o.kind == "gssvx" || o.kind == "gsisx" || o.kind == "pipe" || o.kind == "ipipe") {
            if (o.fact == FACTORED) continue;
            o.lwork = e.lwork; o.align = e.align; o.wsgarbage = e.wsgarbage; o.faults = e.faults;
        }
    }
    return q;
}

static void init_ctx(TaskCtx &ctx, const TaskPlan &plan, bool log_events) {
    for (int i = 0; i < 7; i++) ctx.tuning[i] = plan.tuning[i];
    ctx.garbage = (Garbage)(plan.garbage & 0xFF); ctx.clean_growth = (plan.garbage & G_CLEAN_GROWTH) != 0; ctx.grng.reseed(0xabcdef12345ULL + (plan.garbage & 0xFF)); ctx.log_events = log_events;
}
static void collect(TaskCtx &ctx, PlanRun &pr) {
    pr.evhash = ctx.evh.h; pr.steps = ctx.steps;
    pr.leaks = rt_live_blocks(&ctx, true);
    for (auto &b : rt_live_blocks(&ctx, false)) if (b.caller) pr.caller_leftover.push_back(b);
    pr.n_alloc = ctx.n_alloc; pr.n_growth_req = ctx.n_growth_req; pr.n_growth_failed = ctx.n_growth_failed;
    pr.once_fired = ctx.n_fault_once_fired; pr.persist_fired = ctx.n_fault_persist_fired;
    pr.events = std::move(ctx.events);
    rt_release_all(&ctx);
}

template <class K> static void run_world(TaskCtx *ctx, const TaskPlan *plan, const ExecCfg *cfg, PlanRun *pr) {
    World<K> w(ctx, plan, *cfg);
    w.run_all();
    pr->trace = std::move(w.trace);
}

PlanRun run_plan_single(const TaskPlan &plan, const ExecCfg &cfg, bool log_events) {
    PlanRun pr; TaskCtx ctx; init_ctx(ctx, plan, log_events);
    TaskCtx *prev = g_task; rt_bind(&ctx);
    dispatch_kind(plan.dtype, [&](auto k) { run_world<decltype(k)>(&ctx, &plan, &cfg, &pr); return 0; });
    collect(ctx, pr);
    rt_bind(prev);
    return pr;
}

std::vector<PlanRun> run_plans_sequential(const std::vector<TaskPlan> &plans, const ExecCfg &cfg, int garbage) {
    std::vector<PlanRun> out(plans.size());
    TaskCtx ctx; TaskCtx *prev = g_task; rt_bind(&ctx);
    for (size_t i = 0; i < plans.size(); i++) {
        TaskPlan p = plans[i]; p.garbage = garbage;
        for (int k = 0; k < 7; k++) ctx.tuning[k] = p.tuning[k];
        ctx.garbage = (Garbage)(garbage & 0xFF); ctx.clean_growth = (garbage & G_CLEAN_GROWTH) != 0; if (i == 0) ctx.grng.reseed(0x51ab5eedULL + (garbage & 0xFF));
        ctx.evh = Hash64(); uint64_t s0 = ctx.steps;
        dispatch_kind(p.dtype, [&](auto k) { run_world<decltype(k)>(&ctx, &p, &cfg, &out[i]); return 0; });
        out[i].evhash = ctx.evh.h; out[i].steps = ctx.steps - s0;
        out[i].leaks = rt_live_blocks(&ctx, true);
        // blocks a plan left behind stay in the ledger (and in the stale ring): that is the history the next plan sees
    }
    rt_release_all(&ctx);
    rt_bind(prev);
    return out;
}

struct TaskArg { TaskCtx *ctx; const TaskPlan *plan; const ExecCfg *cfg; PlanRun *pr; };
static void task_body(void *p) {
    TaskArg *a = (TaskArg *)p;
    dispatch_kind(a->plan->dtype, [&](auto k) { run_world<decltype(k)>(a->ctx, a->plan, a->cfg, a->pr); return 0; });
}

ConcurrentResult run_plans_concurrent(const std::vector<TaskPlan> &plans, const ExecCfg &cfg0, const SchedConfig &sc) {
    ConcurrentResult cr; int n = (int)plans.size(); cr.runs.resize(n);
    ExecCfg cfg = cfg0; cfg.yield_at_ops = true;
    std::vector<std::unique_ptr<TaskCtx>> ctxs; std::vector<TaskArg> args(n); std::vector<TaskCtx *> cp(n); std::vector<void *> ap(n);
    for (int i = 0; i < n; i++) { ctxs.emplace_back(new TaskCtx()); init_ctx(*ctxs[i], plans[i], false); args[i] = {ctxs[i].get(), &plans[i], &cfg, &cr.runs[i]}; cp[i] = ctxs[i].get(); ap[i] = &args[i]; }
    sched_run(n, cp.data(), task_body, ap.data(), sc, &cr.sched);
    for (int i = 0; i < n; i++) { TaskCtx *prev = g_task; rt_bind(ctxs[i].get()); collect(*ctxs[i], cr.runs[i]); rt_bind(prev); }
    return cr;
}

template <class K> struct SessionImpl : Session {
    TaskCtx ctx; TaskPlan base; ExecCfg cfg; std::unique_ptr<World<K>> w; TaskCtx *prev; bool done = false;
    SessionImpl(const TaskPlan &b, const ExecCfg &c) : base(b), cfg(c) {
        init_ctx(ctx, base, false); prev = g_task; rt_bind(&ctx); w.reset(new World<K>(&ctx, &base, cfg));
    }
    ~SessionImpl() { if (!done) finish(); }
    const OpResult &step(const Op &o) override { base.ops.push_back(o); w->run_op(o); return w->trace.back(); }
    SlotView view(int slot) override {
        auto &s = w->slots[slot]; SlotView v; v.haveA = s.haveA; v.have_pattern = s.have_pattern; v.haveLU = s.haveLU; v.lu_valid = s.lu_valid; v.m = s.m; v.n = s.n;
        v.last_cls = s.last_cls; v.lu_lwork = s.lu_lwork; v.equed = s.equed[0];
        if (s.haveA && s.perm_r) { v.perm_r.assign(s.perm_r, s.perm_r + s.m); v.perm_c.assign(s.perm_c, s.perm_c + s.n); }
        return v;
    }
    PlanRun finish() override {
        PlanRun pr; if (done) return pr; done = true;
        pr.trace = std::move(w->trace); w.reset(); collect(ctx, pr); rt_bind(prev); return pr;
    }
};
std::unique_ptr<Session> open_session(const TaskPlan &base, const ExecCfg &cfg) {
    TaskPlan b = base; b.ops.clear();
    return dispatch_kind(base.dtype, [&](auto k) { return std::unique_ptr<Session>(new SessionImpl<decltype(k)>(b, cfg)); });
}

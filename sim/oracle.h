// Shared oracle library (none of this links SuperLU code; it only reads the data structures the API returns).
//   * structure checker  (content of C03)      * identity checker Pr*A*Pc = L*U  (content of C02)
//   * residual checker   (content of C01/C05)  * snapshots + bit comparer
#pragma once
#include <complex>
#include <cstring>
#include <map>
#include <string>
#include <vector>
#include "slu.h"

typedef std::complex<long double> cx;

struct Snapshot {
    std::vector<std::pair<std::string, std::vector<unsigned char>>> f;
    void add(const std::string &name, const void *p, size_t bytes) {
        std::vector<unsigned char> v(bytes);
        if (bytes) memcpy(v.data(), p, bytes);
        f.emplace_back(name, std::move(v));
    }
    template <class T> void val(const std::string &name, T v) { add(name, &v, sizeof v); }
    const std::vector<unsigned char> *get(const std::string &name) const {
        for (auto &kv : f) if (kv.first == name) return &kv.second;
        return nullptr;
    }
    uint64_t hash() const { Hash64 h; for (auto &kv : f) { h.str(kv.first.c_str()); h.u64(kv.second.size()); h.bytes(kv.second.data(), kv.second.size()); } return h.h; }
};
// first differing field ("" if equal), ignoring fields whose name starts with one of the prefixes in `skip`
static inline std::string snap_diff(const Snapshot &a, const Snapshot &b, const std::vector<std::string> &skip = {}) {
    auto skipped = [&](const std::string &n) { for (auto &s : skip) if (n.compare(0, s.size(), s) == 0) return true; return false; };
    size_t i = 0, j = 0;
    while (true) {
        while (i < a.f.size() && skipped(a.f[i].first)) i++;
        while (j < b.f.size() && skipped(b.f[j].first)) j++;
        if (i == a.f.size() && j == b.f.size()) return "";
        if (i == a.f.size()) return "+" + b.f[j].first;
        if (j == b.f.size()) return "-" + a.f[i].first;
        if (a.f[i].first != b.f[j].first) return a.f[i].first + "<>" + b.f[j].first;
        if (a.f[i].second != b.f[j].second) {
            size_t off = 0, na = a.f[i].second.size(), nb = b.f[j].second.size();
            while (off < na && off < nb && a.f[i].second[off] == b.f[j].second[off]) off++;
            return a.f[i].first + "@byte" + std::to_string(off) + "(" + std::to_string(na) + "/" + std::to_string(nb) + ")";
        }
        i++; j++;
    }
}

// Bounds the harness may rely on when it walks returned factor arrays (so that a damaged structure is
// reported as a violation instead of crashing the harness): capacities in elements, <0 = unknown.
struct FactorCaps { long lsub = -1, lusup = -1, ucol = -1; };

// ---- structure checker. Returns "" or a description of the first inconsistency. ----
template <class K>
std::string check_structure(const SuperMatrix *L, const SuperMatrix *U, int m, int n, const int *perm_r, const int *perm_c,
                            bool ilu, const FactorCaps &caps, bool weak = false) {
    // weak: only what the harness needs to walk the arrays safely (used for singular returns, whose structure
    // no property constrains): tags, pointer arrays monotone and within capacity, indices in range
    char buf[256];
    auto fail = [&](const char *fmt, long a = 0, long b = 0, long c = 0) { snprintf(buf, sizeof buf, fmt, a, b, c); return std::string(buf); };
    if (!L || !U || !L->Store || !U->Store) return "null factor object";
    if (L->Stype != SLU_SC || U->Stype != SLU_NC) return "wrong Stype tag on L or U";
    if (L->Dtype != K::dtype || U->Dtype != K::dtype) return "wrong Dtype tag on L or U";
    if (L->Mtype != SLU_TRLU || U->Mtype != SLU_TRU) return "wrong Mtype tag on L or U";
    if (L->nrow != m || L->ncol != n || U->nrow != n || U->ncol != n) return fail("factor dimensions L %ldx%ld", (long)L->nrow, (long)L->ncol);
    const SCformat *Ls = (const SCformat *)L->Store; const NCformat *Us = (const NCformat *)U->Store;
    if (perm_r) { std::vector<char> seen(m, 0); for (int i = 0; i < m; i++) { int p = perm_r[i]; if (p < 0 || p >= m || seen[p]) return fail("perm_r not a bijection at %ld (value %ld)", i, p); seen[p] = 1; } }
    if (perm_c) { std::vector<char> seen(n, 0); for (int i = 0; i < n; i++) { int p = perm_c[i]; if (p < 0 || p >= n || seen[p]) return fail("perm_c not a bijection at %ld (value %ld)", i, p); seen[p] = 1; } }
    if (n == 0) return "";
    long nsuper = Ls->nsuper;
    if (nsuper < 0 || nsuper >= n) return fail("nsuper %ld out of range", nsuper);
    const int *xsup = Ls->sup_to_col, *supno = Ls->col_to_sup;
    const int_t *xlsub = Ls->rowind_colptr, *lsub = Ls->rowind, *xlusup = Ls->nzval_colptr;
    const int_t *xusub = Us->colptr, *usub = Us->rowind;
    if (!xsup || !supno || !xlsub || !xlusup || !xusub) return "null pointer array";
    if (xsup[0] != 0 || xsup[nsuper + 1] != n) return fail("xsup ends %ld..%ld", xsup[0], xsup[nsuper + 1]);
    for (long s = 0; s <= nsuper; s++) {
        if (xsup[s + 1] <= xsup[s] || xsup[s + 1] > n) return fail("supernode %ld empty or not consecutive", s);
        for (int j = xsup[s]; j < xsup[s + 1]; j++) if (supno[j] != s) return fail("supno[%ld]=%ld but column lies in supernode %ld", j, supno[j], s);
    }
    if (xlsub[0] != 0 || xlusup[0] != 0 || xusub[0] != 0) return "pointer array does not start at 0";
    for (int j = 0; j < n; j++) {
        if (xlsub[j + 1] < xlsub[j]) return fail("rowind_colptr not monotone at %ld", j);
        if (xlusup[j + 1] < xlusup[j]) return fail("nzval_colptr not monotone at %ld", j);
        if (xusub[j + 1] < xusub[j]) return fail("U colptr not monotone at %ld", j);
    }
    if (caps.lsub >= 0 && xlsub[n] > caps.lsub) return fail("L row index count %ld exceeds capacity %ld", xlsub[n], caps.lsub);
    if (caps.lusup >= 0 && xlusup[n] > caps.lusup) return fail("L value count %ld exceeds capacity %ld", xlusup[n], caps.lusup);
    if (caps.ucol >= 0 && xusub[n] > caps.ucol) return fail("U entry count %ld exceeds capacity %ld", xusub[n], caps.ucol);
    if (!lsub || !Ls->nzval) return "null L arrays";
    if (xusub[n] > 0 && (!usub || !Us->nzval)) return "null U arrays";
    if (weak) {
        for (long k = 0; k < xlsub[n]; k++) if (lsub[k] < 0 || lsub[k] >= m) return fail("L row index %ld out of range", (long)lsub[k]);
        for (long k = 0; k < xusub[n]; k++) if (usub[k] < 0 || usub[k] >= n) return fail("U row index %ld out of range", (long)usub[k]);
        for (long s = 0; s <= nsuper; s++) { int fsupc = xsup[s]; long nsupr = xlsub[fsupc + 1] - xlsub[fsupc];
            for (int j = fsupc; j < xsup[s + 1]; j++) if (xlusup[j + 1] - xlusup[j] != nsupr) return fail("column %ld: %ld values for %ld rows", j, xlusup[j + 1] - xlusup[j], nsupr); }
        return "";
    }
    long nnzL = 0, nnzU = xusub[n];
    std::vector<int> mark(m, -1);
    for (long s = 0; s <= nsuper; s++) {
        int fsupc = xsup[s], nsupc = xsup[s + 1] - fsupc;
        long beg = xlsub[fsupc], end = xlsub[fsupc + 1], nsupr = end - beg;
        if (nsupr < nsupc) return fail("supernode %ld: %ld rows < %ld columns", s, nsupr, nsupc);
        for (int j = fsupc + 1; j < fsupc + nsupc; j++) if (xlsub[j] != end) return fail("rowind_colptr[%ld] inside supernode %ld not at end of shared row list", j, s);
        for (long k = 0; k < nsupr; k++) {
            long r = lsub[beg + k];
            if (r < 0 || r >= m) return fail("L row index %ld out of range in supernode %ld", r, s);
            if (k < nsupc) { if (r != fsupc + k) return fail("supernode %ld: leading row %ld is %ld, expected its own column", s, k, r); }
            else { if (r < fsupc + nsupc) return fail("supernode %ld: row %ld not below the supernode", s, r); }
            if (mark[r] == s) return fail("supernode %ld: row %ld repeated", s, r);
            mark[r] = (int)s;
        }
        for (int j = fsupc; j < fsupc + nsupc; j++) {
            if (xlusup[j + 1] - xlusup[j] != nsupr) return fail("column %ld: %ld values for %ld rows", j, xlusup[j + 1] - xlusup[j], nsupr);
            nnzL += nsupr - (j - fsupc);
            nnzU += j - fsupc + 1;
        }
    }
    std::vector<int> umark(n, -1);
    for (int j = 0; j < n; j++) {
        int fsupc = xsup[supno[j]];
        for (long k = xusub[j]; k < xusub[j + 1]; k++) {
            long r = usub[k];
            if (r < 0 || r >= n) return fail("U row index %ld out of range in column %ld", r, j);
            if (r >= fsupc) return fail("U row %ld of column %ld not strictly above its supernode (first col %ld)", r, j, fsupc);
            if (umark[r] == j && !ilu) return fail("U row %ld repeated in column %ld", r, j);
            umark[r] = j;
        }
    }
    if (Ls->nnz != nnzL) return fail("stored nnz(L) %ld != recount %ld", (long)Ls->nnz, nnzL);
    if (Us->nnz != nnzU) return fail("stored nnz(U) %ld != recount %ld", (long)Us->nnz, nnzU);
    return "";
}

// ---- dense expansions (structure must have been checked first) ----
template <class K> void dense_LU(const SuperMatrix *L, const SuperMatrix *U, int m, int n, std::vector<cx> &Ld, std::vector<cx> &Ud) {
    typedef typename K::scalar S;
    const SCformat *Ls = (const SCformat *)L->Store; const NCformat *Us = (const NCformat *)U->Store;
    Ld.assign((size_t)m * n, cx(0)); Ud.assign((size_t)n * n, cx(0));
    const S *lval = (const S *)Ls->nzval; const S *uval = (const S *)Us->nzval;
    for (long s = 0; s <= Ls->nsuper; s++) {
        int fsupc = Ls->sup_to_col[s], nsupc = Ls->sup_to_col[s + 1] - fsupc;
        long beg = Ls->rowind_colptr[fsupc], nsupr = Ls->rowind_colptr[fsupc + 1] - beg;
        for (int j = fsupc; j < fsupc + nsupc; j++) {
            long vb = Ls->nzval_colptr[j];
            for (long k = 0; k < nsupr; k++) {
                long r = Ls->rowind[beg + k];
                cx v((ld)ScalarOps<S>::re(lval[vb + k]), (ld)ScalarOps<S>::im(lval[vb + k]));
                if (r <= j && r < n) Ud[(size_t)r + (size_t)j * n] = v; // upper part of the diagonal block belongs to U
                else Ld[(size_t)r + (size_t)j * m] = v;
            }
            Ld[(size_t)j + (size_t)j * m] = cx(1);
        }
    }
    for (int j = 0; j < n; j++) for (long k = Us->colptr[j]; k < Us->colptr[j + 1]; k++)
        Ud[(size_t)Us->rowind[k] + (size_t)j * n] += cx((ld)ScalarOps<S>::re(uval[k]), (ld)ScalarOps<S>::im(uval[k]));
}

// A given as SLU_NC (or the NC view of the transpose of an SLU_NR matrix): dense m x n
template <class K> void dense_A(const SuperMatrix *A, std::vector<cx> &Ad, int &m, int &n) {
    typedef typename K::scalar S;
    const NCformat *As = (const NCformat *)A->Store; // NRformat has the same layout
    if (A->Stype == SLU_NR) { m = A->ncol; n = A->nrow; } else { m = A->nrow; n = A->ncol; }
    Ad.assign((size_t)m * n, cx(0));
    const S *v = (const S *)As->nzval;
    for (int j = 0; j < n; j++) for (long k = As->colptr[j]; k < As->colptr[j + 1]; k++)
        Ad[(size_t)As->rowind[k] + (size_t)j * m] += cx((ld)ScalarOps<S>::re(v[k]), (ld)ScalarOps<S>::im(v[k]));
}

struct IdentityStats { long double max_ratio = 0; long double max_mult = 0; };

// Pr*A*Pc = L*U entrywise within c*k*u*(|L||U|)_ij + tiny ; multipliers bounded when `thresh` > 0; U_jj != 0 when nonsingular.
template <class K>
std::string check_identity(const std::vector<cx> &Ad, int m, int n, const SuperMatrix *L, const SuperMatrix *U,
                           const int *perm_r, const int *perm_c, double thresh, bool expect_nonsingular, IdentityStats *st = nullptr) {
    std::vector<cx> Ld, Ud;
    dense_LU<K>(L, U, m, n, Ld, Ud);
    const ld u = K::eps(), c = K::cplx ? 16 : 4, tiny = 64 * (ld)K::tiny();
    char buf[256];
    // P = Pr*A*Pc
    std::vector<cx> P((size_t)m * n, cx(0));
    for (int j = 0; j < n; j++) for (int i = 0; i < m; i++) P[(size_t)perm_r[i] + (size_t)perm_c[j] * m] = Ad[(size_t)i + (size_t)j * m];
    // product, column by column
    std::vector<cx> col(m); std::vector<ld> g(m);
    for (int j = 0; j < n; j++) {
        std::fill(col.begin(), col.end(), cx(0)); std::fill(g.begin(), g.end(), (ld)0);
        for (int k = 0; k <= j && k < n; k++) {
            cx ukj = Ud[(size_t)k + (size_t)j * n];
            if (ukj == cx(0)) continue;
            ld au = std::abs(ukj);
            const cx *lk = &Ld[(size_t)k * m];
            for (int i = k; i < m; i++) { if (lk[i] != cx(0)) { col[i] += lk[i] * ukj; g[i] += std::abs(lk[i]) * au; } }
        }
        for (int i = 0; i < m; i++) {
            ld e = std::abs(P[(size_t)i + (size_t)j * m] - col[i]);
            ld bound = c * (ld)std::min(m, n) * u * g[i] + tiny;
            if (st && bound > 0) st->max_ratio = std::max(st->max_ratio, e / bound);
            if (!(e <= bound)) {
                snprintf(buf, sizeof buf, "identity Pr*A*Pc=L*U fails at (%d,%d): |E|=%.3Le bound=%.3Le", i, j, e, bound);
                return buf;
            }
        }
    }
    if (expect_nonsingular) for (int j = 0; j < n; j++) {
        cx d = Ud[(size_t)j + (size_t)j * n];
        if (d == cx(0) || !std::isfinite((double)std::abs(d))) { snprintf(buf, sizeof buf, "U(%d,%d) is zero or not finite on a success return", j, j); return buf; }
    }
    if (thresh > 0) {
        ld lim = (ld)(K::cplx ? 1.4142135623730951L : 1.0L) / (ld)thresh * (1 + 8 * u);
        for (int j = 0; j < n; j++) for (int i = j + 1; i < m; i++) {
            ld a = std::abs(Ld[(size_t)i + (size_t)j * m]);
            if (st) st->max_mult = std::max(st->max_mult, a);
            if (!(a <= lim)) { snprintf(buf, sizeof buf, "multiplier |L(%d,%d)|=%.6Le exceeds 1/u=%.6Le", i, j, a, lim); return buf; }
        }
    }
    return "";
}

// Residual of op(Ahat) Xhat = Bhat against the factor-derived componentwise bound.
//   Ahat: dense n x n (the matrix that was factored, NC view), trant: 0 N, 1 T, 2 C (w.r.t. the NC view)
//   G = Pr^T |L||U| Pc^T  (|L||U| permuted back to Ahat's numbering)
template <class K>
std::string check_residual(const std::vector<cx> &Ahat, int n, const std::vector<cx> &Ld, const std::vector<cx> &Ud,
                           const int *perm_r, const int *perm_c, int trant, const std::vector<cx> &Xhat, const std::vector<cx> &Bhat,
                           int nrhs, const double *berr /*may be null*/, long double *max_ratio = nullptr) {
    const ld u = K::eps(), c1 = K::cplx ? 48 : 12, c2 = K::cplx ? 16 : 4, tiny = 64 * (ld)K::tiny();
    // G in permuted numbering
    std::vector<ld> G((size_t)n * n, 0);
    for (int j = 0; j < n; j++) for (int k = 0; k <= j; k++) {
        ld au = std::abs(Ud[(size_t)k + (size_t)j * n]); if (au == 0) continue;
        for (int i = k; i < n; i++) { ld al = std::abs(Ld[(size_t)i + (size_t)k * n]); if (al != 0) G[(size_t)i + (size_t)j * n] += al * au; }
    }
    char buf[256];
    for (int r = 0; r < nrhs; r++) {
        const cx *x = &Xhat[(size_t)r * n], *b = &Bhat[(size_t)r * n];
        for (int i = 0; i < n; i++) if (!std::isfinite((double)std::abs(x[i]))) { snprintf(buf, sizeof buf, "X(%d,%d) not finite", i, r); return buf; }
        for (int i = 0; i < n; i++) {
            cx ax(0); ld aax = 0, gx = 0;
            for (int j = 0; j < n; j++) {
                cx a; ld gij;
                if (trant == 0) { a = Ahat[(size_t)i + (size_t)j * n]; gij = G[(size_t)perm_r[i] + (size_t)perm_c[j] * n]; }
                else { a = Ahat[(size_t)j + (size_t)i * n]; if (trant == 2) a = std::conj(a); gij = G[(size_t)perm_r[j] + (size_t)perm_c[i] * n]; }
                ax += a * x[j]; aax += std::abs(a) * std::abs(x[j]); gx += gij * std::abs(x[j]);
            }
            ld res = std::abs(b[i] - ax);
            ld bound = c1 * n * u * gx + c2 * n * u * (aax + std::abs(b[i])) + tiny;
            // with refinement the returned X is the refined iterate: its residual is bounded by the reported
            // backward error (plus the rounding of evaluating a residual, already in the c2 term), not by |L||U|
            // complex: the library measures |r_i|, |a_ij|, |x_j| as |re|+|im| when it forms BERR, so in moduli the same
            // statement reads |r_i| <= BERR * (2 * sum |a||x| + sqrt(2) |b|): factor 2
            if (berr) bound += (K::cplx ? 2 : 1) * (ld)berr[r] * (1 + 4 * (n + 2) * u) * (aax + std::abs(b[i]) + tiny * n * 1024);
            if (max_ratio && bound > 0) *max_ratio = std::max(*max_ratio, res / bound);
            if (!(res <= bound)) {
                snprintf(buf, sizeof buf, "residual of rhs %d row %d: %.3Le > bound %.3Le (trans %d)", r, i, res, bound, trant);
                return buf;
            }
        }
    }
    return "";
}

// Overflow guard: the rounding-error bounds hold barring overflow. If the factors / solution contain infinities or
// finite entries of enormous magnitude, overflow is a legitimate explanation and the numerical oracles are skipped
// (and counted). A NaN among entries of modest size is NOT excused.
template <class K> bool overflow_plausible(const std::vector<cx> &a, const std::vector<cx> &b, const std::vector<cx> &c) {
    const long double T = sizeof(typename K::real) == 4 ? 1e15L : 1e100L;
    for (const std::vector<cx> *v : {&a, &b, &c}) for (const cx &z : *v) {
        long double m = std::max(std::fabs(z.real()), std::fabs(z.imag()));
        if (std::isinf((double)z.real()) || std::isinf((double)z.imag()) || std::isinf(z.real()) || std::isinf(z.imag())) return true;
        if (m == m && m > T) return true;
    }
    return false;
}

// Largest magnitude that occurs when op(A) x = b is solved with the given factors, evaluated in long double.
// If the library's X is not finite but this stays far below the overflow threshold of the working precision,
// overflow cannot be the explanation.
template <class K>
long double solve_magnitude(int n, const std::vector<cx> &Ld, const std::vector<cx> &Ud, const int *perm_r, const int *perm_c, int trant,
                            const std::vector<cx> &Bhat, int nrhs) {
    long double mx = 0;
    auto upd = [&](const cx &v) { long double a = std::abs(v); if (a == a && a > mx) mx = a; if (!(a == a)) mx = INFINITY; };
    std::vector<cx> y(n), z(n);
    for (int r = 0; r < nrhs; r++) {
        const cx *b = &Bhat[(size_t)r * n];
        if (trant == 0) {
            for (int i = 0; i < n; i++) y[perm_r[i]] = b[i];
            for (int k = 0; k < n; k++) { upd(y[k]); for (int i = k + 1; i < n; i++) { cx l = Ld[(size_t)i + (size_t)k * n]; if (l != cx(0)) y[i] -= l * y[k]; } }
            for (int k = n - 1; k >= 0; k--) { cx d = Ud[(size_t)k + (size_t)k * n]; if (d == cx(0)) return INFINITY; y[k] /= d; upd(y[k]); for (int i = 0; i < k; i++) { cx u = Ud[(size_t)i + (size_t)k * n]; if (u != cx(0)) y[i] -= u * y[k]; } }
        } else {
            for (int i = 0; i < n; i++) z[perm_c[i]] = b[i];
            for (int k = 0; k < n; k++) { // U^T (or U^H) forward
                cx d = Ud[(size_t)k + (size_t)k * n]; if (trant == 2) d = std::conj(d); if (d == cx(0)) return INFINITY;
                cx acc = z[k]; for (int i = 0; i < k; i++) { cx u = Ud[(size_t)i + (size_t)k * n]; if (trant == 2) u = std::conj(u); if (u != cx(0)) acc -= u * z[i]; }
                z[k] = acc / d; upd(z[k]);
            }
            for (int k = n - 1; k >= 0; k--) { // L^T backward (unit diagonal)
                cx acc = z[k]; for (int i = k + 1; i < n; i++) { cx l = Ld[(size_t)i + (size_t)k * n]; if (trant == 2) l = std::conj(l); if (l != cx(0)) acc -= l * z[i]; }
                z[k] = acc; upd(z[k]);
            }
        }
    }
    return mx;
}
template <class K> bool solve_may_overflow(int n, const std::vector<cx> &Ld, const std::vector<cx> &Ud, const int *perm_r, const int *perm_c, int trant,
                                           const std::vector<cx> &Bhat, int nrhs) {
    const long double lim = sizeof(typename K::real) == 4 ? 3.4e38L * 1e-6L : 1.7e308L * 1e-12L;
    return solve_magnitude<K>(n, Ld, Ud, perm_r, perm_c, trant, Bhat, nrhs) > lim;
}

// C19 - no memory error or leak over any documented API lifecycle.
// Seeded lifecycles (create / order / factor / solve / refine / re-factor / query / destroy, incl. singular,
// out-of-space and query exits) under ASan+UBSan, with the allocation ledger and a fresh-memory differential.
#include <functional>
#include "gen_common.h"

long find_min_lwork(const TaskPlan &plan, EnvSpec e, long hi, int *probes, const std::function<void(const EnvSpec &)> &note);

static ExecCfg c19_cfg() {
    ExecCfg c; c.op_budget = 60000000ULL; c.chk_structure = true; c.chk_identity = false; c.chk_residual = false; c.chk_resolve_pure = true; c.capture = true;
    return c;
}

static void singular_values(Rng &r, const Mat &P, bool cplx, std::vector<double> &re, std::vector<double> &im) {
    Mat T = P; gen_values(r, T, "smallint", cplx); re = T.re; im = T.im;
    int j = r.range(0, P.n - 1);
    for (int k = P.colptr[j]; k < P.colptr[j + 1]; k++) { re[k] = 0; im[k] = 0; }
}

Case gen_C19(uint64_t seed, long run, const GenCfg &g, const char *inflight) {
    Rng r(mix3(seed, 19, (uint64_t)run));
    Case c; c.property = "C19"; c.seed = seed; c.run = run; c.variant = g.variant;
    TaskPlan t; t.dtype = gen_dtype(r); bool cplx = (t.dtype == 'c' || t.dtype == 'z');
    gen_tuning(r, t.tuning, r.chance(0.7)); // small fill estimates: arrays run exactly full / one short of capacity often
    t.garbage = (int)r.below(G_NUM);
    int nmax = g.thorough ? (r.chance(0.1) ? 100 : 50) : 28;
    t.mats.push_back(gen_matrix(r, 1, nmax, false, cplx));
    t.mats.push_back(gen_matrix(r, 1, std::max(3, nmax / 2), false, cplx));
    t.mats.push_back(gen_matrix(r, 2, std::max(4, nmax / 2), true, cplx)); // may be tall: factor routine only
    auto opt = [&](const char *kind, int slot) { Op o; o.kind = kind; o.slot = slot; gen_options(r, o, true, cplx); return o; };
    int wsg = (int)r.below(G_NUM);
    auto draw_mem = [&](Op &o, const Mat &A) {
        double u = r.unit();
        if (u < 0.55) { o.lwork = 0; return; }
        long amp = ample_lwork(A, t.tuning, t.tuning[5], cplx);
        if (u < 0.8) o.lwork = amp;                                  // comfortable caller workspace
        else if (u < 0.92) o.lwork = (long)(amp * r.unit() * 0.08) + 8; // certainly or probably too small: out-of-space exit
        else o.lwork = (long)r.below(64) + 1;
        o.align = r.chance(0.5) ? 4 : 0; o.wsgarbage = wsg;
    };
    std::vector<Op> ops;
    { Op nw; nw.kind = "new"; nw.slot = 0; nw.mat = 0; double u = r.unit(); nw.reader = u < 0.15 ? "hb" : u < 0.28 ? "mm" : u < 0.38 ? "rb" : u < 0.48 ? "triple" : ""; nw.storage = (nw.reader.empty() && r.chance(0.2)) ? 1 : 0;
      // file encodings drawn from their own stream (the main stream, and with it the rest of the lifecycle, is unaffected)
      Rng rf(mix3(seed, 0x1916, (uint64_t)run));
      if (!nw.reader.empty()) {
          nw.rfmt = (int)rf.below(32);
          if (nw.reader == "mm" || nw.reader == "triple") nw.rbase0 = rf.chance(0.25) ? 1 : 0;
          if (nw.reader != "triple" && rf.chance(0.4)) { // symmetric storage: the reader expands the lower triangle
              static const double dropp[] = {0.0, 0.3, 1.0};
              t.mats[0] = symmetrize(rf, t.mats[0], dropp[rf.below(3)]); nw.rsym = 1;
          }
      }
      ops.push_back(nw); }
    bool slot1 = false; int live_handles = 0;
    int items = r.range(2, g.thorough ? 12 : 8);
    for (int it = 0; it < items; it++) {
        int slot = (slot1 && r.chance(0.4)) ? 1 : 0;
        const Mat &A = t.mats[slot == 0 ? 0 : 1];
        double u = r.unit();
        if (u < 0.10) { Op o = opt("gssv", slot); ops.push_back(o); }
        else if (u < 0.40) {
            Op o = opt("gssvx", slot); o.fact = DOFACT; draw_mem(o, A);
            double v = r.unit();
            if (v < 0.12) { singular_values(r, A, cplx, o.re, o.im); o.vchange = "singular"; }
            else if (v < 0.2) { FaultSpec f; f.k = r.range(1, 9); f.persist = true; o.faults.push_back(f); }
            else if (v < 0.3) { FaultSpec f; f.k = r.range(1, 9); f.persist = false; o.faults.push_back(f); }
            ops.push_back(o);
            int chain = r.range(0, 4);
            for (int k = 0; k < chain; k++) {
                Op q = opt("gssvx", slot); q.lwork = o.lwork; q.align = o.align; q.wsgarbage = o.wsgarbage;
                static const int fm[] = {SamePattern, SamePattern_SameRowPerm, SamePattern_SameRowPerm, FACTORED, FACTORED};
                q.fact = fm[r.below(5)]; q.colperm = o.colperm; q.permc_seed = o.permc_seed;
                q.symmode = o.symmode; // the remembered ordering / etree was computed for this mode
                if (q.fact != FACTORED && r.chance(0.5)) { Mat T = A; gen_values(r, T, kValueModes[r.below(4)], cplx); q.re = T.re; q.im = T.im; q.vchange = "unrelated"; }
                if (q.fact != FACTORED && r.chance(0.08)) { singular_values(r, A, cplx, q.re, q.im); q.vchange = "singular"; }
                // storage faults inside re-use steps too (an eighth of them; derived from the step's own seed, no extra draw)
                if (q.fact != FACTORED && ((q.rhs_seed >> 24) & 3) == 0) { FaultSpec f; f.k = 1 + (int)((q.rhs_seed >> 27) % 7); f.persist = ((q.rhs_seed >> 30) & 1) != 0; q.faults.push_back(f); } // (a quarter of them; request 1 of a re-use step is the work array, expansions follow)
                if (r.chance(0.12)) { Op sq = q; sq.lwork = -1; sq.faults.clear(); sq.re.clear(); sq.im.clear(); sq.vchange = ""; if (sq.fact == FACTORED) sq.fact = DOFACT; ops.push_back(sq); } // size query inside the chain
                ops.push_back(q);
            }
        } else if (u < 0.52) {
            Op o = opt("gsisx", slot); o.fact = DOFACT; gen_ilu_options(r, o); draw_mem(o, A);
            if (r.chance(0.15)) { FaultSpec f; f.k = r.range(1, 9); f.persist = r.chance(0.5); o.faults.push_back(f); }
            ops.push_back(o);
            // incomplete LU re-using ordering, row permutation and storage (a quarter of the ILU items; derived, no extra draw)
            if (((o.rhs_seed >> 16) & 3) == 0 && o.rowperm == NOROWPERM) { Op q2 = o; q2.fact = SamePattern_SameRowPerm; q2.faults.clear(); q2.rhs_seed = o.rhs_seed * 0x9E3779B97F4A7C15ULL + 1;
                if ((o.rhs_seed >> 18) & 1) { Rng rv(q2.rhs_seed); Mat T = A; gen_values(rv, T, kValueModes[rv.below(4)], cplx); q2.re = T.re; q2.im = T.im; q2.vchange = "unrelated"; }
                ops.push_back(q2); }
            if (r.chance(0.4)) { Op q = o; q.fact = FACTORED; q.faults.clear(); q.rhs_seed = r.next(); q.nrhs = r.range(0, 3); q.trans = r.chance(0.5) ? NOTRANS : TRANS; ops.push_back(q); }
        } else if (u < 0.66) {
            bool ilu = r.chance(0.3);
            int ps = (slot1 && r.chance(0.5)) ? 1 : slot; (void)ps;
            Op o = opt(ilu ? "ipipe" : "pipe", slot); o.stages = (int)r.below(16); o.equil = 0; if (ilu) gen_ilu_options(r, o);
            draw_mem(o, A);
            if (r.chance(0.15)) { FaultSpec f; f.k = r.range(1, 9); f.persist = r.chance(0.5); o.faults.push_back(f); }
            ops.push_back(o);
            // re-factoring through the computational routines (a third of the pipeline items; derived from the item's own seed, no extra
            // draw): one or two steps with Fact = SamePattern / SamePattern_SameRowPerm, new values in most of them, storage faults in some
            if ((o.rhs_seed >> 13) % 3 == 0) {
                Rng rq(o.rhs_seed ^ 0x51BE); int steps = rq.range(1, 2);
                for (int k = 0; k < steps; k++) {
                    Op q = o; q.fact = rq.chance(0.6) ? SamePattern_SameRowPerm : SamePattern; q.faults.clear(); q.rhs_seed = rq.next(); q.stages = (int)rq.below(16); q.nrhs = rq.range(1, 3);
                    if (rq.chance(0.7)) { Mat T = A; gen_values(rq, T, kValueModes[rq.below(4)], cplx); q.re = T.re; q.im = T.im; q.vchange = "unrelated"; }
                    if (rq.chance(0.15)) { FaultSpec f; f.k = rq.range(1, 6); f.persist = rq.chance(0.5); q.faults.push_back(f); }
                    ops.push_back(q);
                }
            }
        } else if (u < 0.70) { Op o; o.kind = "equil"; o.slot = slot; ops.push_back(o); }
        else if (u < 0.80) {
            static const char *qk[] = {"gssvx", "gssvx", "gsisx", "pipe", "ipipe"};
            Op o = opt(qk[r.below(5)], slot); o.lwork = -1;
            if (o.kind == "gsisx" || o.kind == "ipipe") gen_ilu_options(r, o);
            static const int fm[] = {DOFACT, DOFACT, SamePattern, SamePattern_SameRowPerm};
            if (o.kind == "gssvx") o.fact = fm[r.below(4)];
            ops.push_back(o);
        } else if (u < 0.86) {
            Op nw; nw.kind = "new"; nw.slot = 1; nw.mat = r.chance(0.6) ? 1 : 2; nw.storage = (nw.mat == 1 && r.chance(0.2)) ? 1 : 0; ops.push_back(nw); slot1 = true;
            if (nw.mat == 2) { Op o = opt("pipe", 1); o.stages = (int)r.below(16); o.equil = 0; draw_mem(o, t.mats[2]); ops.push_back(o); }
        } else if (u < 0.96) {
            int h = (int)r.below(3);
            Op f; f.kind = "bfactor"; f.handle = h; f.mat = (int)r.below(2); ops.push_back(f); live_handles |= 1 << h;
            int ns = r.range(0, 3);
            for (int k = 0; k < ns; k++) { Op sv; sv.kind = "bsolve"; sv.handle = h; sv.nrhs = r.range(1, 3); sv.ldpad = r.chance(0.3) ? 2 : 0; sv.rhs_seed = r.next(); ops.push_back(sv); }
            if (r.chance(0.6)) { Op fr; fr.kind = "bfree"; fr.handle = h; ops.push_back(fr); live_handles &= ~(1 << h); }
        } else { Op d; d.kind = "destroy"; d.slot = slot; ops.push_back(d); Op nw; nw.kind = "new"; nw.slot = slot; nw.mat = slot == 0 ? 0 : 1; ops.push_back(nw); }
    }
    for (int h = 0; h < 3; h++) if (live_handles & (1 << h)) { Op fr; fr.kind = "bfree"; fr.handle = h; ops.push_back(fr); }
    { Op d; d.kind = "destroy"; d.slot = 0; ops.push_back(d); Op d1; d1.kind = "destroy"; d1.slot = 1; ops.push_back(d1); }
    // an exactly singular set of values stays in the slot until the caller supplies new ones: the next factorising call
    // on that slot that is not itself a complete-LU expert call gets the original (nonsingular) values back, so that
    // incomplete LU is not fed exactly singular input (content of C15, not claimed)
    {
        bool sing[4] = {false, false, false, false}; int matof[4] = {0, 1, 1, 1};
        for (auto &o : ops) {
            if (o.kind == "new") { sing[o.slot] = false; matof[o.slot] = o.mat; continue; }
            bool factor = (o.kind == "gssv" || o.kind == "pipe" || o.kind == "ipipe" || o.kind == "gsisx" || o.kind == "gssvx") && o.fact != FACTORED;
            if (!factor || o.lwork == -1) continue;
            if (o.vchange == "singular") { sing[o.slot] = true; continue; }
            if (!o.re.empty()) { sing[o.slot] = false; continue; }
            if (sing[o.slot] && o.kind != "gssvx") { const Mat &B = t.mats[matof[o.slot]]; o.re = B.re; o.im = B.im; o.vchange = "restore"; sing[o.slot] = false; }
        }
        // FACTORED re-solves of ILU factors after a singular step can not occur: singular steps are gssvx only and invalidate the factors
    }
    // stand-alone utilities (format conversion, copies, right-hand-side set-up, printing, MC64) at arbitrary points of the
    // lifecycle; drawn from their own stream so that the lifecycles themselves stay what they were
    {
        Rng ru(mix3(seed, 0x7711, (uint64_t)run));
        int cnt = ru.chance(0.35) ? ru.range(1, 2) : 0;
        for (int k = 0; k < cnt; k++) {
            Op u; u.kind = "util"; u.slot = (slot1 && ru.chance(0.3)) ? 1 : 0; u.stages = 1 + (int)ru.below(63);
            u.nrhs = ru.range(1, 3); u.ldpad = ru.chance(0.4) ? ru.range(1, 3) : 0; u.trans = ru.chance(0.5) ? TRANS : NOTRANS; u.rhs_seed = ru.next();
            u.stages |= ((u.rhs_seed >> 20) & 1 ? 64 : 0) | ((u.rhs_seed >> 21) & 1 ? 128 : 0); // direct sp_?gemv / sp_?trsv calls
            size_t pos = 1 + (size_t)ru.below(ops.size() - 2);
            ops.insert(ops.begin() + pos, u);
        }
    }
    t.ops = ops;
    c.tasks.push_back(t);
    c.prior_plans = (int)r.below(G_NUM); // second dirty mode
    if (inflight) write_inflight(inflight, c);
    return c;
}

static std::string exit_of(const PlanRun &pr, int op) { if (op < 0 || op >= (int)pr.trace.size()) return "none"; return kExitName[pr.trace[op].cls]; }

RunOutcome exec_C19(const Case &c) {
    RunOutcome out; if (c.tasks.empty()) return out;
    const TaskPlan &plan = c.tasks[0];
    Hash64 h;
    auto judge = [&](const PlanRun &pr, const char *pass, bool hang_is_inconclusive) {
        h.u64(pr.evhash);
        out.stats["sim_edges"] += (double)pr.steps;
        bool escaped = false;
        for (auto &r : pr.trace) if (r.escaped) escaped = true;
        for (size_t i = 0; i < pr.trace.size(); i++) for (auto &v : pr.trace[i].violations) {
            size_t bar = v.find('|'); std::string orc = v.substr(0, bar);
            // the property is about memory safety; a call that does not terminate on this input (seen: NaN reaching the
            // quick-select of incomplete LU) makes the lifecycle inconclusive, it is not a memory error
            if (orc == "hang" && hang_is_inconclusive) { out.stats["lifecycles_inconclusive_hang"] += 1; continue; }
            out.violations.push_back({orc, std::string(pass) + " pass, op " + std::to_string(i) + " (" + op_brief(plan.ops[i]) + "): " + v.substr(bar + 1), "C19|" + orc + "|" + plan.ops[i].kind + "|" + kExitName[pr.trace[i].cls]});
        }
        // ledger: nothing of the library's own still allocated once the caller destroyed what it was handed
        std::map<std::string, int> seen;
        if (!escaped) for (auto &b : pr.leaks) {
            std::string kind = (b.op >= 0 && b.op < (int)plan.ops.size()) ? plan.ops[b.op].kind : "?";
            std::string key = std::string("C19|leak|") + (b.func ? b.func : "?") + "|" + kind + "|" + exit_of(pr, b.op);
            if (seen[key]++) continue;
            out.violations.push_back({"leak", std::string(pass) + " pass: block #" + std::to_string(b.id) + " (" + std::to_string(b.size) + " bytes) allocated in " + (b.func ? b.func : "?") + " during op " + std::to_string(b.op) + " (" +
                                      (b.op >= 0 && b.op < (int)plan.ops.size() ? op_brief(plan.ops[b.op]) : "?") + ", exit " + exit_of(pr, b.op) + ") is still allocated after the documented destruction", key});
        }
        if (!escaped && !pr.caller_leftover.empty()) out.violations.push_back({"harness-leftover", "harness-owned block still live at the end (bug in the machinery)", "MACHINERY|caller-leftover"});
    };
    TaskPlan z = plan; z.garbage = G_ZERO; for (auto &o : z.ops) o.wsgarbage = G_ZERO;
    bool force_dirty = c.note.find("force-dirty") != std::string::npos;
    PlanRun pz = force_dirty ? run_plan_single(plan, c19_cfg()) : run_plan_single(z, c19_cfg());
    judge(pz, force_dirty ? "dirty" : "clean", true);
    for (auto &r : pz.trace) if (r.escaped == ESC_HANG) { out.hash = h.h; return out; }
    bool singular = false; int nfact = 0; std::ostringstream seq, exits; bool user = false;
    for (size_t i = 0; i < pz.trace.size(); i++) {
        const OpResult &r = pz.trace[i]; const Op &o = plan.ops[i];
        if (r.skipped) { out.stats["ops_skipped"] += 1; continue; }
        out.stats["ops_executed"] += 1; out.stats["op_" + o.kind] += 1;
        if (o.kind == "new" && !o.reader.empty()) out.stats["op_new_via_reader_" + o.reader] += 1;
        if ((o.kind == "pipe" || o.kind == "ipipe") && o.fact != DOFACT && o.lwork != -1) { out.stats[std::string("probe_") + o.kind + (o.fact == SamePattern ? "_SamePattern" : "_SameRowPerm")] += 1; if (r.permr_changed) out.stats["probe_pipe_reuse_pivot_abandoned"] += 1; if (r.expansions > 0) out.stats["probe_pipe_reuse_with_expansions"] += 1; }
        if (o.kind == "util" && (o.stages & 64)) out.stats["probe_util_sp_gemv_direct"] += 1;
        if (o.kind == "util" && (o.stages & 128)) out.stats["probe_util_sp_trsv_direct"] += 1;
        out.stats[std::string("exit_") + kExitName[r.cls]] += 1;
        if (r.cls == XC_SINGULAR) singular = true;
        bool isfact = (o.kind == "gssv" || o.kind == "pipe" || o.kind == "ipipe" || ((o.kind == "gssvx" || o.kind == "gsisx") && o.fact != FACTORED && o.lwork != -1) || o.kind == "bfactor");
        if (isfact) nfact++;
        seq << o.kind[0] << (o.kind.size() > 1 ? o.kind[1] : ' ') << o.fact; exits << r.cls;
        if (r.lwork_used > 0) user = true;
        if (r.growth_failed) out.stats["fault_enomem_fired"] += 1;
        if (r.cls == XC_NOSPACE && r.lwork_used > 0) out.stats["fault_workspace_short_fired"] += 1;
        if (o.lwork == -1) out.stats["fault_size_query"] += 1;
        if (r.expansions > 0) out.stats["ops_with_expansions"] += 1;
        if (r.slack_lusup == 0) out.stats["probe_final_lusup_exactly_full"] += 1; if (r.slack_lusup == 1) out.stats["probe_final_lusup_one_short_of_capacity"] += 1;
        if (r.slack_ucol == 0) out.stats["probe_final_ucol_exactly_full"] += 1; if (r.slack_ucol == 1) out.stats["probe_final_ucol_one_short_of_capacity"] += 1;
        if (r.slack_lsub == 0) out.stats["probe_final_lsub_exactly_full"] += 1; if (r.slack_lsub == 1) out.stats["probe_final_lsub_one_short_of_capacity"] += 1;
    }
    // ---- fresh-memory differential: outputs and control flow must not depend on what fresh heap blocks / the workspace contain
    if (!force_dirty) {
        for (auto &o : plan.ops) if (o.vchange == "singular") singular = true; // may also end as "out of space" without being reported
        // lifecycles with an exactly-zero pivot (recorded finding KF1: the factorization then indexes entries of lsub/lusup it never
        // wrote): the blocks of the growable factor arrays and the caller workspace stay zeroed, every other fresh block is dirty
        if (singular) out.stats["dirty_pass_factor_arrays_clean"] += 1;
        {
            int modes[2] = {plan.garbage, c.prior_plans};
            for (int m = 0; m < 2; m++) {
                if (modes[m] == G_ZERO) continue;
                TaskPlan d = plan; d.garbage = modes[m] | (singular ? G_CLEAN_GROWTH : 0); for (auto &o : d.ops) o.wsgarbage = singular ? (int)G_ZERO : (o.wsgarbage + modes[m]) % G_NUM;
                PlanRun pd = run_plan_single(d, c19_cfg());
                out.stats["dirty_passes"] += 1; out.stats[std::string("garbage_") + kGarbageName[modes[m]]] += 1;
                judge(pd, "dirty", false);
                for (size_t i = 0; i < pd.trace.size() && i < pz.trace.size(); i++) {
                    std::string df = snap_diff(pz.trace[i].snap, pd.trace[i].snap);
                    if (df.empty() && pz.trace[i].steps != pd.trace[i].steps && !pz.trace[i].skipped) df = "(control flow: " + std::to_string(pz.trace[i].steps) + " vs " + std::to_string(pd.trace[i].steps) + " edges)";
                    if (!df.empty()) {
                        out.violations.push_back({"uninitialised-dependence", "op " + std::to_string(i) + " (" + op_brief(plan.ops[i]) + "): " + df + " differs between clean and '" + kGarbageName[modes[m]] + "' fresh memory", "C19|uninitialised-dependence|" + plan.ops[i].kind + "|" + kExitName[pz.trace[i].cls]});
                        break;
                    }
                }
            }
        }
    }
    // ---- capacity ladder ("every exact size of the growable arrays relative to their capacity"): incomplete LU takes its initial
    //      capacity of lusup / ucol / lsub / usub from ILU_FillFactor x nnz(A), a real number, and with the basic dropping rule (or none)
    //      the factors do not depend on it. For the first such call of the lifecycle the column pointers of the factors it returned
    //      tell how full each array is when column j starts; the call is repeated (library allocation, clean and dirty memory) with
    //      the fill factor chosen so that the capacity equals exactly that fill level - at sampled columns j, for each of the three
    //      arrays, and one element more / less. Same oracles (sanitizers, ledger), and the factors must come out bit-identical.
    if (!force_dirty && !singular) {
        int li = -1, ni = -1;
        for (size_t i = 0; i < plan.ops.size() && li < 0; i++) {
            const Op &o = plan.ops[i];
            if (!(o.kind == "ipipe" || o.kind == "gsisx") || o.fact != DOFACT || o.lwork != 0 || !o.faults.empty() || !(o.droprule == DROP_BASIC || o.droprule == NODROP)) continue;
            if (i >= pz.trace.size() || pz.trace[i].skipped || pz.trace[i].cls != XC_OK) continue;
            int nw = -1; bool ok = true;
            for (size_t k = 0; k < i; k++) { const Op &q = plan.ops[k]; if (q.slot != o.slot) continue; if (q.kind == "new") { nw = (int)k; ok = q.reader.empty() && q.storage == 0; } else if (!q.re.empty()) ok = false; }
            if (nw >= 0 && ok && o.re.empty()) { li = (int)i; ni = nw; }
        }
        if (li >= 0) {
            TaskPlan sub = plan; sub.ops.clear(); Op nw = plan.ops[ni]; nw.slot = 0; Op io = plan.ops[li]; io.slot = 0; Op ds; ds.kind = "destroy"; ds.slot = 0;
            long nnz = plan.mats[nw.mat].nnz(); int n = plan.mats[nw.mat].n;
            io.fillfactor = 4.0 * n * (double)n / (double)std::max(1L, nnz) + 8.0; // nothing grows
            sub.ops = {nw, io, ds}; sub.garbage = G_ZERO;
            PlanRun ref = run_plan_single(sub, c19_cfg());
            const std::vector<unsigned char> *xl = ref.trace[1].snap.get("L.xlusup"), *xs = ref.trace[1].snap.get("L.xlsub"), *xu = ref.trace[1].snap.get("U.xusub");
            if (ref.trace[1].cls == XC_OK && ref.trace[1].violations.empty() && xl && xs && xu && xl->size() == (size_t)(n + 1) * sizeof(int_t)) {
                out.stats["capacity_ladders"] += 1;
                const int_t *pl = (const int_t *)xl->data(), *ps = (const int_t *)xs->data(), *pu = (const int_t *)xu->data();
                Rng rc(mix3(c.seed, 0xCA9A, (uint64_t)c.run));
                for (int t = 0; t < 9; t++) {
                    int j = 1 + (int)rc.below((uint64_t)n); const int_t *arr = t % 3 == 0 ? pl : t % 3 == 1 ? pu : ps;
                    long target = (long)arr[j] + (long)rc.below(3) - 1; if (target < 1) continue;
                    Op iq = io; iq.fillfactor = ((double)target + 0.5) / (double)std::max(1L, nnz);
                    for (int pass = 0; pass < 2; pass++) {
                        TaskPlan q = sub; q.ops[1] = iq; q.garbage = pass ? plan.garbage : (int)G_ZERO; if (pass && plan.garbage == G_ZERO) break;
                        PlanRun pq = run_plan_single(q, c19_cfg());
                        out.stats["capacity_ladder_runs"] += 1;
                        if (pq.trace[1].expansions > 0) out.stats["capacity_ladder_runs_with_expansions"] += 1;
                        // same judgement as the lifecycle itself (sanitizer reports end the process on their own)
                        h.u64(pq.evhash);
                        for (size_t i = 0; i < pq.trace.size(); i++) for (auto &v : pq.trace[i].violations) { size_t bar = v.find('|'); std::string orc = v.substr(0, bar); if (orc == "hang") continue;
                            out.violations.push_back({orc, "capacity ladder (initial capacity " + std::to_string(target) + "), op " + std::to_string(i) + ": " + v.substr(bar + 1), "C19|" + orc + "|" + sub.ops[i].kind + "|ladder"}); }
                        for (auto &b : pq.leaks) { out.violations.push_back({"leak", "capacity ladder (initial capacity " + std::to_string(target) + "): block allocated in " + std::string(b.func ? b.func : "?") + " is still allocated after the documented destruction", std::string("C19|leak|") + (b.func ? b.func : "?") + "|" + sub.ops[1].kind + "|ladder"}); break; }
                        if (pq.trace[1].cls == XC_OK && !pq.trace[1].skipped) {
                            std::string df = snap_diff(ref.trace[1].snap, pq.trace[1].snap, {"stat.expansions", "ops"});
                            if (!df.empty()) out.violations.push_back({"capacity-dependence", "incomplete LU with the basic dropping rule: field " + df + " differs when the arrays start with capacity " + std::to_string(target) + " instead of ample room (" + (pass ? "dirty" : "clean") + " memory)", "C19|capacity-dependence|" + sub.ops[1].kind + "|ladder"});
                        }
                    }
                }
            }
        }
    }
    out.hash = h.h;
    out.nontrivial = nfact >= 1;
    { Hash64 k; k.str(seq.str().c_str()); k.str(exits.str().c_str()); k.u64(user); out.distinct_key = std::to_string(k.h); }
    std::ostringstream s;
    s << "{\"dtype\":\"" << plan.dtype << "\",\"matrices\":\"" << plan.mats[0].m << "x" << plan.mats[0].n << "," << plan.mats[1].m << "x" << plan.mats[1].n << "," << plan.mats[2].m << "x" << plan.mats[2].n
      << "\",\"tuning\":\"" << tuning_brief(plan.tuning) << "\",\"garbage\":\"" << kGarbageName[plan.garbage] << "\",\"lifecycle\":\"";
    for (size_t i = 0; i < plan.ops.size() && i < pz.trace.size(); i++) s << op_brief(plan.ops[i]) << "=" << (pz.trace[i].skipped ? "skipped" : kExitName[pz.trace[i].cls]) << " ";
    s << "\"}";
    out.sample = s.str();
    return out;
}

// Non-template front end of the executor: run a plan in one simulated environment, alone or concurrently.
#pragma once
#include <memory>
#include "case.h"
#include "exec.h"

struct PlanRun {
    std::vector<OpResult> trace;
    uint64_t evhash = 0, steps = 0;
    std::vector<AllocRec> leaks;            // library-site blocks still live after the plan finished
    std::vector<AllocRec> caller_leftover;  // harness blocks still live (harness bug if non-empty after a destroy)
    uint64_t n_alloc = 0, n_growth_req = 0, n_growth_failed = 0, once_fired = 0, persist_fired = 0;
    std::vector<std::string> events;
};

// Apply one storage schedule / injected environment to every factorising operation of a plan
TaskPlan apply_env(const TaskPlan &p, const EnvSpec &e);

PlanRun run_plan_single(const TaskPlan &plan, const ExecCfg &cfg, bool log_events = false);

struct ConcurrentResult { std::vector<PlanRun> runs; SchedResult sched; };
ConcurrentResult run_plans_concurrent(const std::vector<TaskPlan> &plans, const ExecCfg &cfg, const SchedConfig &sc);

// several plans one after the other in ONE task context (same thread, same allocator history): history independence
std::vector<PlanRun> run_plans_sequential(const std::vector<TaskPlan> &plans, const ExecCfg &cfg, int garbage);

struct SlotView { bool haveA, have_pattern, haveLU, lu_valid; int m, n, last_cls; long lu_lwork; char equed; std::vector<int> perm_r, perm_c; };
struct Session {
    virtual ~Session() {}
    virtual const OpResult &step(const Op &o) = 0;
    virtual SlotView view(int slot) = 0;
    virtual PlanRun finish() = 0;
};
std::unique_ptr<Session> open_session(const TaskPlan &base, const ExecCfg &cfg);

// C08 - a caller workspace is never overrun; shortage is reported (fault enumeration).
// Per sampled case: EVERY workspace length (step 4 bytes, both alignments), EVERY failing position among the
// factor-growth requests (transient and persisting), and the size query through the entry point.
#include <algorithm>
#include <cstring>
#include <functional>
#include "gen_common.h"

long find_min_lwork(const TaskPlan &plan, EnvSpec e, long hi, int *probes, const std::function<void(const EnvSpec &)> &note);

static int c08_main_op(const TaskPlan &p) { for (size_t i = 0; i < p.ops.size(); i++) if (p.ops[i].kind != "new" && p.ops[i].kind != "destroy") return (int)i; return -1; }

Case gen_C08(uint64_t seed, long run, const GenCfg &g, const char *inflight) {
    Rng r(mix3(seed, 8, (uint64_t)run));
    Case c; c.property = "C08"; c.seed = seed; c.run = run; c.variant = g.variant;
    TaskPlan t; t.dtype = gen_dtype(r); bool cplx = (t.dtype == 'c' || t.dtype == 'z');
    gen_tuning(r, t.tuning, true);
    if (r.chance(0.3)) t.tuning[5] = r.range(4, 12);
    // "big" cases: more fill-in and a fill estimate of 1-2, so that many growth requests of every kind (LUSUP, UCOL+USUB, LSUB)
    // are in flight; their failing positions are enumerated completely, their workspace lengths sampled around the boundaries
    bool big = r.chance(0.4);
    if (big) t.tuning[5] = r.range(1, 2);
    double u = r.unit();
    std::string kind = u < 0.45 ? "gssvx" : u < 0.65 ? "pipe" : u < 0.88 ? "gsisx" : "ipipe";
    int nmax = g.thorough ? (r.chance(0.15) ? 60 : 30) : 18;
    if (big) nmax = g.thorough ? 90 : 44;
    Mat A = gen_matrix(r, big ? 16 : 1, nmax, kind == "pipe", cplx);
    c.prior_plans = big ? 1 : 0;
    t.mats.push_back(A);
    Op nw; nw.kind = "new"; nw.mat = 0; nw.storage = ((kind == "gssvx" || kind == "gsisx") && r.chance(0.15)) ? 1 : 0;
    Op mo; mo.kind = kind; gen_options(r, mo, A.m == A.n, cplx); mo.fact = DOFACT;
    if (kind == "gsisx" || kind == "ipipe") {
        gen_ilu_options(r, mo);
        // incomplete LU keeps its arrays small by dropping; in 40 % of the ILU cases little or nothing is dropped while the
        // fill factor stays small, so that ucol/usub/lusup/lsub grow inside ilu_*copy_to_ucol / *gsitrf as well (own stream)
        Rng rb(mix3(seed, 0x0808, (uint64_t)run));
        if (rb.chance(0.4)) { mo.droprule = rb.chance(0.5) ? NODROP : DROP_BASIC; if (rb.chance(0.5)) mo.droptol = 0.0; mo.fillfactor = rb.chance(0.5) ? 1.5 : 2.0; }
    }
    if (kind == "pipe" || kind == "ipipe") { mo.stages = (int)r.below(16); mo.equil = 0; }
    Op ds; ds.kind = "destroy";
    t.ops = {nw, mo, ds};
    t.garbage = r.chance(0.5) ? (int)r.below(G_NUM) : G_ZERO;
    c.tasks.push_back(t);
    c.sched_seed = r.next(); // seeds the sampled part of the sweep when the requirement is large
    (void)inflight;
    return c; // envs empty: exec enumerates the whole fault space of this case
}

struct C08Ctx {
    const Case &c; const TaskPlan &plan; int mi; RunOutcome &out; PlanRun ref; uint64_t budget; Hash64 h; std::vector<EnvSpec> failing; bool ilu; bool ref_singular = false;
    // re-use step in an exhausted workspace: {new, fresh factorization, SamePattern_SameRowPerm with unrelated values, destroy}
    TaskPlan plan2; PlanRun ref2; int have2 = 0; // 0 not built, 1 usable, -1 not applicable
    C08Ctx(const Case &cc, RunOutcome &o) : c(cc), plan(cc.tasks[0]), mi(c08_main_op(cc.tasks[0])), out(o), budget(0), ilu(false) {}
};

static ExecCfg c08_cfg(uint64_t budget);
static TaskPlan c08_reuse_env(const C08Ctx &x, const EnvSpec &e) {
    TaskPlan q = x.plan2; if (e.fill > 0) q.tuning[5] = e.fill; q.garbage = e.garbage;
    q.ops[1].lwork = e.lwork; q.ops[1].align = e.align; q.ops[1].wsgarbage = e.wsgarbage; q.ops[1].faults.clear();
    q.ops[2].lwork = e.lwork; q.ops[2].align = e.align; q.ops[2].wsgarbage = e.wsgarbage; q.ops[2].faults = e.faults; // storage faults hit the re-use step only
    return q;
}
static bool c08_build_reuse(C08Ctx &x) {
    if (x.have2) return x.have2 > 0;
    x.have2 = -1;
    const Op &mo = x.plan.ops[x.mi]; const Mat &A = x.plan.mats[0];
    if (!(mo.kind == "gssvx" || mo.kind == "pipe") || x.ref_singular) return false;
    bool cplx = (x.plan.dtype == 'c' || x.plan.dtype == 'z');
    x.plan2 = x.plan; Op f0 = mo; f0.faults.clear(); Op f2 = f0; f2.fact = SamePattern_SameRowPerm; f2.vchange = "unrelated"; f2.rhs_seed = mo.rhs_seed ^ 0x2222;
    // first factorization: values dominant on the structural transversal (hardly any row interchange, little fill) in two thirds of
    // the cases, so that the re-use step - unrelated values, remembered pivots abandoned - needs MORE room than the compacted arrays have
    { Rng vr(mix3(x.c.sched_seed, 44, 0)); Mat T = A; gen_values(vr, T, "uniform", cplx); f2.re = T.re; f2.im = T.im;
      if (vr.below(3) != 0) { Mat D = A; gen_values(vr, D, "dominant", cplx); f0.re = D.re; f0.im = D.im; f0.vchange = "dominant"; } }
    Op ds; ds.kind = "destroy";
    x.plan2.ops = {x.plan.ops[0], f0, f2, ds};
    EnvSpec re; re.lwork = 0; re.fill = x.plan.tuning[5]; re.garbage = G_ZERO;
    x.ref2 = run_plan_single(c08_reuse_env(x, re), c08_cfg(0));
    x.h.u64(x.ref2.evhash); x.out.stats["enumerated_runs"] += 1;
    const OpResult &r2 = x.ref2.trace[2];
    for (size_t i = 0; i < x.ref2.trace.size(); i++) for (auto &v : x.ref2.trace[i].violations) { size_t bar = v.find('|'); x.out.violations.push_back({v.substr(0, bar), "reference run of the re-use step, op " + std::to_string(i) + ": " + v.substr(bar + 1), "C08|" + v.substr(0, bar) + "|" + mo.kind + "|reuse-reference"}); }
    if (r2.skipped || !(r2.cls == XC_OK || r2.cls == XC_ILLCOND)) return false; // (a re-use step that meets an exactly-zero pivot: recorded finding KF1, clean memory only - not enumerated)
    x.have2 = 1; return true;
}

static ExecCfg c08_cfg(uint64_t budget) {
    ExecCfg c; c.chk_structure = true; c.chk_identity = false; c.chk_residual = false; c.chk_resolve_pure = false; c.capture = true;
    if (budget) c.op_budget = budget;
    return c;
}

// one enumerated run: outcome must be "reported shortage" or "same class and bit-identical to the reference"
static long c08_one(C08Ctx &x, const EnvSpec &e0, const char *what) {
    EnvSpec e = e0;
    if (x.ref_singular) { e.garbage |= G_CLEAN_GROWTH; e.wsgarbage = G_ZERO; } // known finding KF-zero-pivot: for singular inputs the growable factor arrays and the workspace are handed out zeroed
    bool reuse = strncmp(what, "reuse", 5) == 0;
    if (reuse && !c08_build_reuse(x)) return -1;
    TaskPlan q = reuse ? c08_reuse_env(x, e) : apply_env(x.plan, e);
    PlanRun pr = run_plan_single(q, c08_cfg(reuse ? 2 * x.budget : x.budget));
    x.h.u64(pr.evhash);
    x.out.stats["enumerated_runs"] += 1;
    x.out.stats["sim_edges"] += (double)pr.steps;
    int mi = reuse ? 2 : x.mi;
    const OpResult &r = pr.trace[mi]; const OpResult &rr = reuse ? x.ref2.trace[2] : x.ref.trace[x.mi];
    const Op &mo = x.plan.ops[x.mi];
    if (reuse) { x.out.stats["reuse_runs"] += 1; if (r.skipped) { x.out.stats["reuse_runs_first_step_short"] += 1; }
                 else { if (e.lwork > 0) { x.out.stats[std::string("reuse_user_exit_") + kExitName[r.cls]] += 1; if (r.growth_reqs > 0) x.out.stats["probe_reuse_user_mode_growth_requests"] += 1; }
                        if (r.expansions > 0 && e.lwork > 0) x.out.stats["probe_reuse_user_mode_expansion"] += 1; if (r.permr_changed) x.out.stats["probe_reuse_pivot_abandoned"] += 1; } }
    std::string mode = e.lwork > 0 ? "user" : "system";
    bool bad = false;
    auto add = [&](const std::string &orc, const std::string &det) {
        x.out.violations.push_back({orc, std::string(what) + " lwork=" + std::to_string(e.lwork) + " align=" + std::to_string(e.align) + " faults=" +
                                    (e.faults.empty() ? std::string("none") : ("k" + std::to_string(e.faults[0].k) + (e.faults[0].persist ? "/persist" : "/once"))) + ": " + det,
                                    "C08|" + orc + "|" + mo.kind + "|" + mode});
        bad = true;
    };
    for (size_t i = 0; i < pr.trace.size(); i++) for (auto &v : pr.trace[i].violations) { size_t bar = v.find('|'); add(v.substr(0, bar), v.substr(bar + 1)); }
    x.out.stats[std::string("exit_") + kExitName[r.cls]] += 1;
    x.out.stats["fault_enomem_once_fired"] += (double)pr.once_fired; x.out.stats["fault_enomem_persist_fired"] += (double)(pr.persist_fired ? 1 : 0);
    if (e.lwork > 0) x.out.stats["workspace_user"] += 1;
    if (e.align) x.out.stats["workspace_misaligned"] += 1;
    bool fired = false;
    if (r.cls == XC_NOSPACE) {
        fired = true;
        if (e.lwork > 0) x.out.stats["fault_workspace_short_fired"] += 1;
        // info > n: a positive byte count plus n
        if (!(r.info > x.plan.mats[0].n)) add("nospace-info", "out-of-space return with info " + std::to_string(r.info));
        // shortage may only be reported when there was one: no injected failure and library allocation can not run out
        if (e.lwork == 0 && e.faults.empty()) add("spurious-nospace", "info > n although nothing was short");
        int halv = 0; for (auto &gq : r.growth_log) if (gq.k <= 4 && gq.failed) halv++;
        if (r.growth_reqs <= 4 && e.lwork == 0) x.out.stats["probe_fail_during_init"] += 1;
    } else if (r.cls == XC_ABORT || r.cls == XC_HANG) {
        /* violation already added from the trace */
    } else if (!r.skipped) {
        if (r.growth_failed > 0) fired = true;
        if (r.cls != rr.cls) add("outcome-class", std::string("returned ") + kExitName[r.cls] + " where the fault-free run returns " + kExitName[rr.cls]);
        else {
            std::string d = snap_diff(rr.snap, r.snap, {"stat.expansions"});
            if (!d.empty()) add("damaged-factors", "result differs from the fault-free run in field " + d);
        }
        if (r.expansions > 0 && e.lwork > 0) x.out.stats["probe_user_mode_expansion_ok"] += 1;
        if (r.growth_failed > 0) x.out.stats["probe_success_after_transient_enomem"] += 1;
    }
    if (fired) x.out.stats["faults_fired_distinct"] += 1;
    if (bad && x.failing.size() < 3) { EnvSpec f = e; f.label = what; x.failing.push_back(f); }
    return (long)r.cls * 100000 + (r.expansions < 0 ? 99999 : r.expansions); // outcome signature: where it changes, the storage schedule changes
}

RunOutcome exec_C08(const Case &c) {
    RunOutcome out; if (c.tasks.empty()) return out;
    C08Ctx x(c, out);
    if (x.mi < 0) return out;
    const TaskPlan &plan = x.plan; const Op &mo = plan.ops[x.mi]; const Mat &A = plan.mats[0];
    bool cplx = (plan.dtype == 'c' || plan.dtype == 'z'); x.ilu = (mo.kind == "gsisx" || mo.kind == "ipipe");
    // ---- reference: library allocation, fault free ----
    EnvSpec re; re.lwork = 0; re.fill = plan.tuning[5]; re.garbage = G_ZERO; re.label = "reference";
    { TaskPlan q = apply_env(plan, re); ExecCfg cf = c08_cfg(0); cf.chk_identity = true; x.ref = run_plan_single(q, cf); }
    x.h.u64(x.ref.evhash);
    const OpResult &rr = x.ref.trace[x.mi];
    for (size_t i = 0; i < x.ref.trace.size(); i++) for (auto &v : x.ref.trace[i].violations) { size_t bar = v.find('|'); out.violations.push_back({v.substr(0, bar), "reference run op " + std::to_string(i) + ": " + v.substr(bar + 1), "C08|" + v.substr(0, bar) + "|" + mo.kind + "|reference"}); }
    out.stats["cases"] += 1; out.stats["enumerated_runs"] += 1; out.stats["sim_edges"] += (double)x.ref.steps;
    if (rr.skipped || rr.cls == XC_ABORT || rr.cls == XC_HANG || rr.cls == XC_NOSPACE) { out.hash = x.h.h; return out; }
    x.budget = 50 * rr.steps + 1000000;
    x.ref_singular = (rr.cls == XC_SINGULAR);
    if (x.ref_singular) out.stats["cases_singular_clean_memory_only"] += 1;
    std::ostringstream s;
    s << "{\"dtype\":\"" << plan.dtype << "\",\"matrix\":\"" << A.family << " " << A.m << "x" << A.n << " nnz " << A.nnz() << "\",\"op\":\"" << op_brief(mo) << "\",\"tuning\":\"" << tuning_brief(plan.tuning) << "\"";
    if (c.note.find("only:") != std::string::npos) {
        // replay of specific environments (a violation's replay file)
        for (size_t k = 0; k < c.envs.size(); k++) if (c.envs[k].label != "reference") c08_one(x, c.envs[k], c.envs[k].label.empty() ? "env" : c.envs[k].label.c_str());
        if (c.note.find("query") != std::string::npos) goto query;
        out.hash = x.h.h; s << "}"; out.sample = s.str();
        return out;
    }
    // ---- 1. every workspace length ----
    {
        long swept = 0;
        for (int align = 0; align <= 4; align += 4) {
            EnvSpec e; e.fill = plan.tuning[5]; e.align = align; e.garbage = plan.garbage; e.wsgarbage = (int)((c.sched_seed >> (align + 3)) % G_NUM);
            int probes = 0;
            long lmin = find_min_lwork(plan, e, ample_lwork(A, plan.tuning, e.fill, cplx), &probes, nullptr);
            out.stats["enumerated_runs"] += probes;
            if (lmin < 0) { out.stats["probe_no_sufficient_length_found"] += 1; continue; }
            long top = lmin + lmin / 4 + 64;
            long limit = 48 * 1024;
            if (top <= limit && c.prior_plans == 0) {
                for (long lw = 4; lw <= top; lw += 4) { e.lwork = lw; c08_one(x, e, "workspace-length"); swept++; }
                // lengths that are not multiples of 4 around the boundary
                for (long lw = std::max(1L, lmin - 9); lw <= lmin + 9; lw++) if (lw % 4) { e.lwork = lw; c08_one(x, e, "workspace-length"); swept++; }
                out.stats["cases_swept_exhaustively"] += 0.5;
            } else {
                // too many lengths to enumerate: a coarse sweep locates every length at which the outcome signature (exit class,
                // number of expansions) changes, each such boundary is then localised by bisection and swept densely (step 4)
                Rng sr(mix3(c.sched_seed, 88, (uint64_t)align));
                const int NC = 96; std::vector<long> pts, sig;
                for (int k = 0; k <= NC; k++) { long lw = (4 + (top - 4) * k / NC) / 4 * 4; if (lw < 4) lw = 4; if (!pts.empty() && lw == pts.back()) continue; e.lwork = lw; pts.push_back(lw); sig.push_back(c08_one(x, e, "workspace-length")); swept++; }
                std::vector<std::pair<long, long>> bnd; // (distance to lmin, boundary)
                for (size_t k = 1; k < pts.size(); k++) if (sig[k] != sig[k - 1]) {
                    long lo = pts[k - 1], hi = pts[k], slo = sig[k - 1];
                    while (hi - lo > 64) { long mid = ((lo + hi) / 2) / 4 * 4; if (mid <= lo) break; e.lwork = mid; long sm = c08_one(x, e, "workspace-length"); swept++; if (sm == slo) lo = mid; else hi = mid; }
                    bnd.push_back({std::labs(hi - lmin), hi});
                }
                std::sort(bnd.begin(), bnd.end());
                int windows = 0;
                for (auto &b : bnd) { if (++windows > (c.prior_plans ? 5 : 10)) break;
                    for (long lw = std::max(4L, b.second - 160); lw <= b.second + 352; lw += 4) { e.lwork = lw; c08_one(x, e, "workspace-length"); swept++; } }
                out.stats["probe_signature_boundaries_swept"] += windows > 5 ? 5 : windows;
                int nsamp = c.prior_plans ? 96 : 512;
                for (int k = 0; k < nsamp; k++) {
                    long lw = sr.chance(0.5) ? (long)(lmin - 2048 + (long)sr.below(4096)) : (long)sr.below((uint64_t)top);
                    if (lw < 1) lw = 4; if (sr.chance(0.9)) lw = lw / 4 * 4; if (lw < 1) lw = 4;
                    e.lwork = lw; c08_one(x, e, "workspace-length"); swept++;
                }
                out.stats["cases_swept_by_sample"] += 0.5;
            }
            out.stats["max_min_sufficient_lwork"] = std::max(out.stats["max_min_sufficient_lwork"], (double)lmin);
        }
        s << ",\"lengths_swept\":" << swept;
    }
    // ---- 2. every failing position among the growth requests (library allocation) ----
    {
        int G = rr.growth_reqs;
        for (int k = 1; k <= G + 1; k++) for (int persist = 0; persist <= 1; persist++) {
            EnvSpec e; e.lwork = 0; e.fill = plan.tuning[5]; e.garbage = plan.garbage;
            FaultSpec f; f.k = k; f.persist = persist != 0; e.faults.push_back(f);
            c08_one(x, e, persist ? "enomem-persist" : "enomem-once");
        }
        s << ",\"growth_requests\":" << G;
        out.stats["max_growth_requests"] = G;
    }
    // ---- 2b. the re-use step (SamePattern_SameRowPerm with unrelated values: other pivots, other fill) in a workspace that the first
    //          factorization nearly or exactly fills, at a ladder of lengths and both alignments; and every failing position among
    //          the growth requests of the re-use step under library allocation. Outcome: info > n, or bit-identical to the re-use
    //          step after a first factorization under library allocation ----
    if (c08_build_reuse(x)) {
        long runs2 = 0;
        for (int align = 0; align <= 4; align += 4) {
            EnvSpec e; e.fill = plan.tuning[5]; e.align = align; e.garbage = plan.garbage; e.wsgarbage = (int)((c.sched_seed >> (align + 9)) % G_NUM);
            int probes = 0;
            TaskPlan first = x.plan2; first.ops = {x.plan2.ops[0], x.plan2.ops[1], x.plan2.ops[3]};
            long lmin = find_min_lwork(first, e, ample_lwork(A, plan.tuning, e.fill, cplx), &probes, nullptr);
            out.stats["enumerated_runs"] += probes;
            if (lmin < 0) continue;
            std::vector<long> ls; for (int k = 0; k < (c.prior_plans ? 6 : 12); k++) ls.push_back(lmin + 4 * k);
            for (int j = 1; j <= (c.prior_plans ? 6 : 10); j++) ls.push_back((lmin + lmin * j / 12) / 4 * 4);
            ls.push_back(lmin + 1); ls.push_back(lmin + 2); ls.push_back(2 * lmin + 64);
            for (long lw : ls) { e.lwork = lw; c08_one(x, e, "reuse-length"); runs2++; }
        }
        int G2 = x.ref2.trace[2].growth_reqs;
        for (int k = 1; k <= G2 + 1; k++) for (int persist = 0; persist <= 1; persist++) {
            EnvSpec e; e.lwork = 0; e.fill = plan.tuning[5]; e.garbage = plan.garbage;
            FaultSpec f; f.k = k; f.persist = persist != 0; e.faults.push_back(f);
            c08_one(x, e, persist ? "reuse-enomem-persist" : "reuse-enomem-once"); runs2++;
        }
        s << ",\"reuse_runs\":" << runs2 << ",\"reuse_growth_requests\":" << G2;
    }
query:
    // ---- 3. size query through this entry point ----
    {
        TaskPlan q = plan; q.ops[x.mi].lwork = -1;
        ExecCfg cf = c08_cfg(x.budget); cf.chk_query_pure = true;
        PlanRun pr = run_plan_single(q, cf);
        x.h.u64(pr.evhash);
        out.stats["enumerated_runs"] += 1; out.stats["fault_size_query"] += 1;
        const OpResult &r = pr.trace[x.mi];
        for (auto &v : r.violations) { size_t bar = v.find('|'); out.violations.push_back({v.substr(0, bar), "size query: " + v.substr(bar + 1), "C08|" + v.substr(0, bar) + "|" + mo.kind + "|query|" + v.substr(bar + 1, v.find('@') == std::string::npos ? std::string::npos : v.find('@') - bar - 1)}); }
        if (!r.skipped && r.cls != XC_QUERY && r.cls != XC_ABORT && r.cls != XC_HANG) out.violations.push_back({"query-class", "size query returned class " + std::string(kExitName[r.cls]), "C08|query-class|" + mo.kind});
        if (!r.skipped && r.cls == XC_QUERY && !(r.query_estimate > 0)) out.violations.push_back({"query-estimate", "estimate " + std::to_string(r.query_estimate), "C08|query-estimate|" + mo.kind});
        // a query retains no allocation
        for (auto &b : pr.leaks) if (b.op == x.mi) { out.violations.push_back({"query-retains", std::string("size query left a block allocated in ") + (b.func ? b.func : "?"), "C08|query-retains|" + mo.kind + "|" + (b.func ? b.func : "?")}); }
        if (!r.violations.empty() || !pr.leaks.empty()) out.query_failed = true;
    }
    // ---- 3b. expert driver: size query while an ordering / factors are being re-used (Fact = SamePattern, SamePattern_SameRowPerm) ----
    if (mo.kind == "gssvx") {
        for (int fm = SamePattern; fm <= SamePattern_SameRowPerm; fm++) {
            TaskPlan q = plan; Op f0 = mo; f0.lwork = 0; f0.faults.clear();
            Op qq = mo; qq.lwork = -1; qq.fact = fm; qq.faults.clear();
            Op ds; ds.kind = "destroy";
            q.ops = {plan.ops[0], f0, qq, ds};
            ExecCfg cf = c08_cfg(x.budget); cf.chk_query_pure = true;
            PlanRun pr = run_plan_single(q, cf);
            x.h.u64(pr.evhash);
            out.stats["enumerated_runs"] += 1; out.stats["fault_size_query"] += 1; out.stats["probe_query_during_reuse"] += 1;
            const OpResult &r = pr.trace[2];
            for (auto &v : r.violations) { size_t bar = v.find('|'); out.violations.push_back({v.substr(0, bar), "size query with Fact=" + std::to_string(fm) + ": " + v.substr(bar + 1), "C08|" + v.substr(0, bar) + "|" + mo.kind + "|query-reuse|" + v.substr(bar + 1, v.find('@') == std::string::npos ? std::string::npos : v.find('@') - bar - 1)}); }
            for (auto &b : pr.leaks) if (b.op == 2) { out.violations.push_back({"query-retains", "size query with Fact=" + std::to_string(fm) + " left a block allocated in " + (b.func ? b.func : "?"), "C08|query-retains|" + mo.kind + "|reuse|" + (b.func ? b.func : "?")}); }
            if (!r.violations.empty()) out.query_failed = true;
        }
        // ---- 3c. the query leaves the persistent factorization state (GlobalLU_t, a caller workspace in use) as it was: a re-use
        //          step issued after it gives exactly what it gives without the query ----
        for (int user = 0; user <= 1; user++) {
            TaskPlan base = plan; Op f0 = mo; f0.faults.clear(); f0.lwork = user ? ample_lwork(A, plan.tuning, plan.tuning[5], cplx) : 0; f0.align = user ? 4 : 0;
            Op f2 = f0; f2.fact = SamePattern_SameRowPerm; f2.vchange = "unrelated";
            { Rng vr(mix3(c.sched_seed, 33, (uint64_t)user)); Mat T = A; gen_values(vr, T, "uniform", cplx); f2.re = T.re; f2.im = T.im; }
            Op qq = f0; qq.lwork = -1; qq.fact = user ? DOFACT : SamePattern;
            Op ds; ds.kind = "destroy";
            TaskPlan p1 = base, p2 = base; p1.ops = {plan.ops[0], f0, f2, ds}; p2.ops = {plan.ops[0], f0, qq, f2, ds};
            ExecCfg cf = c08_cfg(x.budget);
            PlanRun r1 = run_plan_single(p1, cf), r2 = run_plan_single(p2, cf);
            x.h.u64(r1.evhash); x.h.u64(r2.evhash);
            out.stats["enumerated_runs"] += 2; out.stats["probe_reuse_after_query"] += 1;
            for (auto &v : r2.trace[3].violations) { size_t bar = v.find('|'); out.violations.push_back({v.substr(0, bar), std::string("re-use step after a size query (") + (user ? "caller workspace" : "library allocation") + "): " + v.substr(bar + 1), "C08|" + v.substr(0, bar) + "|" + mo.kind + "|after-query"}); out.query_failed = true; }
            if (!r1.trace[2].skipped && !r2.trace[3].skipped && r1.trace[2].violations.empty()) {
                std::string df = snap_diff(r1.trace[2].snap, r2.trace[3].snap);
                if (!df.empty()) { out.violations.push_back({"query-disturbs-state", std::string("a SamePattern_SameRowPerm step gives a different result (field ") + df + ") when a size query was issued before it (" + (user ? "caller workspace" : "library allocation") + ")", "C08|query-disturbs-state|" + mo.kind + "|" + (user ? "user" : "system")}); out.query_failed = true; }
            }
        }
    }
    out.hash = x.h.h;
    out.nontrivial = out.stats["faults_fired_distinct"] > 0;
    { Hash64 k; k.str(A.family.c_str()); for (double v : A.re) k.bytes(&v, 8); k.u64(plan.tuning[5]); k.str(mo.kind.c_str()); out.distinct_key = std::to_string(k.h); }
    s << "}"; out.sample = s.str();
    out.failing_envs = x.failing; // replay file of a violation: reference + the failing environments only
    return out;
}

// The executor: runs a TaskPlan (a list of API operations on the task's private data) against the REAL library
// inside the simulated environment, evaluates the in-run oracles after every step and records a trace.
#pragma once
#include <cerrno>
#include <cstdio>
#include <cstring>
#include <memory>
#include <sys/mman.h>
#include <string>
#include <vector>
#include "case.h"
#include "oracle.h"
#include "simrt.h"
#include "slu.h"

#if defined(__has_feature)
#if __has_feature(address_sanitizer)
#include <sanitizer/asan_interface.h>
#define SIM_ASAN 1
#endif
#endif
#ifndef SIM_ASAN
#define SIM_ASAN 0
#define ASAN_POISON_MEMORY_REGION(a, s) ((void)(a), (void)(s))
#define ASAN_UNPOISON_MEMORY_REGION(a, s) ((void)(a), (void)(s))
#endif

enum ExitClass { XC_OK = 0, XC_ILLCOND = 1, XC_SINGULAR = 2, XC_NOSPACE = 3, XC_QUERY = 4, XC_ARGERR = 5, XC_ABORT = 6, XC_HANG = 7, XC_NONE = 8, XC_BREAKDOWN = 9 };
static const char *const kExitName[] = {"ok", "illcond", "singular", "nospace", "query", "argerror", "abort", "hang", "none", "ilu-breakdown"};
extern __thread char g_cur_op_kind[32];
extern bool g_force_user_workspace;

struct ExecCfg {
    bool chk_structure = true, chk_identity = true, chk_residual = true;
    bool chk_query_pure = true;    // a size query leaves every other argument as it was (every workload; C08 states it, C06 histories and C19 lifecycles rely on it)
    bool chk_resolve_pure = true;  // re-solving never alters the factors
    bool capture = true;           // record bit-level snapshots of every output
    bool capture_clock = false;    // include stat->utime (simulated clock) in the snapshot
    uint64_t op_budget = 400000000ULL;
    int dense_limit = 320;
    bool yield_at_ops = false;     // multi-task: operation boundaries are scheduling points
    bool chk_columns = false;      // C06: a refined multi-column solve is as accurate, column by column, as the same column solved alone
    bool bridge_model = false;     // C20: keep the C simple driver's factors of the same matrix as reference model of every handle
};

struct OpResult {
    std::string kind; bool skipped = false; std::string skip_reason;
    long info = 0; int cls = XC_NONE; int escaped = 0;
    Snapshot snap;
    std::vector<std::string> violations; // "oracle|detail"
    uint64_t steps = 0; int expansions = -1; int growth_reqs = 0, growth_failed = 0;
    bool permr_changed = false; bool f2_bit_equal = false; int bridge_bit_equal = -1;
    long double ident_ratio = 0, resid_ratio = 0; bool overflow_skipped = false;
    std::vector<GrowthEvent> growth_log;
    long query_estimate = 0;
    long lwork_used = 0;
    long slack_lusup = -1, slack_ucol = -1, slack_lsub = -1; // capacity - used at return (library allocation)
};

struct Workspace {
    unsigned char *base = nullptr; size_t cap = 0; unsigned char *work = nullptr; long lwork = 0; int align = 0;
    static const int CAN = 64;
    void alloc(long lw, int al, int garbage, Rng &g) {
        release();
        lwork = lw; align = al; cap = (size_t)lw + 2 * CAN + 32;
        base = (unsigned char *)malloc(cap);
        uintptr_t w = ((uintptr_t)base + CAN + 7) & ~(uintptr_t)7;
        work = (unsigned char *)w + (al ? 4 : 0);
        memset(base, 0xC5, cap);
        unsigned char *p = work;
        switch (garbage) {
        case G_ZERO: memset(p, 0, lw); break;
        case G_FF: memset(p, 0xFF, lw); break;
        case G_A5: memset(p, 0xA5, lw); break;
        case G_NAN: { static const unsigned char pat[4] = {0xAD, 0xDE, 0xF4, 0x7F}; for (long i = 0; i < lw; i++) p[i] = pat[((uintptr_t)(p + i)) & 3]; break; }
        default: for (long i = 0; i < lw; i++) p[i] = (unsigned char)g.next(); break;
        }
        poison();
    }
    void poison() { if (!base) return; ASAN_POISON_MEMORY_REGION(base, (size_t)(work - base)); unsigned char *e = work + lwork; uintptr_t ea = ((uintptr_t)e + 7) & ~(uintptr_t)7; if ((unsigned char *)ea < base + cap) ASAN_POISON_MEMORY_REGION((void *)ea, (size_t)(base + cap - (unsigned char *)ea)); }
    void unpoison() { if (base) ASAN_UNPOISON_MEMORY_REGION(base, cap); }
    bool intact() {
        if (!base) return true;
        unpoison();
        bool ok = true;
        for (unsigned char *p = base; p < work; p++) if (*p != 0xC5) ok = false;
        for (unsigned char *p = work + lwork; p < base + cap; p++) if (*p != 0xC5) ok = false;
        poison();
        return ok;
    }
    bool contains(const void *p, size_t bytes) const { return base && (const unsigned char *)p >= work && (const unsigned char *)p + bytes <= work + lwork; }
    void release() { if (base) { unpoison(); free(base); base = nullptr; work = nullptr; lwork = 0; } }
};

template <class K> struct Slot {
    typedef typename K::scalar S; typedef typename K::real R;
    bool haveA = false; int storage = 0; int m = 0, n = 0; long nnz = 0;
    SuperMatrix A; Mat orig;
    int *perm_c = nullptr, *perm_r = nullptr, *etree = nullptr; R *Rs = nullptr, *Cs = nullptr; char equed[4] = {'N', 0, 0, 0};
    bool have_pattern = false;     // perm_c / etree describe the current pattern
    SuperMatrix L, U; bool haveLU = false, lu_valid = false; long lu_lwork = 0; bool lu_ilu = false;
    GlobalLU_t Glu;
    Workspace ws;
    int last_cls = XC_NONE;
    double last_thresh = 1.0;
    bool glu_valid = false;       // the slot's GlobalLU_t describes the current L and U (not after the simple driver, which keeps its own)
    bool lu_mc64 = false;         // factors come from gsisx with an MC64 row permutation folded into perm_r
    int pat_symmode = 0;          // SymmetricMode the remembered ordering / etree was computed for
    bool lu_nostruct = false;     // factors of an incomplete LU that re-used a row permutation: structure not judged (C15's content)
};

struct BridgeHandle { bool live = false; bool valid = false; fptr f = 0; int n = 0; int slotmat = 0; std::vector<int_t> rowind1, colptr1; void *values = nullptr;
                      bool model = false; SuperMatrix mA, mL, mU; int *mpc = nullptr, *mpr = nullptr; };

template <class K> struct World {
    typedef typename K::scalar S; typedef typename K::real R;
    TaskCtx *ctx; const TaskPlan *plan; ExecCfg cfg;
    std::vector<Slot<K>> slots; std::vector<BridgeHandle> handles;
    std::vector<OpResult> trace;
    bool dead = false;
    Rng wsrng{99};

    World(TaskCtx *c, const TaskPlan *p, const ExecCfg &cf) : ctx(c), plan(p), cfg(cf), slots(4), handles(4) {
        for (auto &s : slots) { memset(&s.A, 0, sizeof s.A); memset(&s.L, 0, sizeof s.L); memset(&s.U, 0, sizeof s.U); memset(&s.Glu, 0, sizeof s.Glu); }
    }
    ~World() { for (auto &s : slots) s.ws.release(); for (auto &h : handles) if (h.values) free(h.values); }

    // ------------------------------------------------------------ helpers
    template <class T> T *cmalloc(size_t n) { return (T *)rt_caller_malloc((n ? n : 1) * sizeof(T)); }
    void viol(OpResult &r, const std::string &oracle, const std::string &detail) { r.violations.push_back(oracle + "|" + detail); }
    // Output-only arguments hold whatever the caller's variables happen to contain. In the clean pass that is what earlier calls left
    // there; in the dirty passes (fresh-memory garbage mode of the task) it is junk of that mode: 0xFF.., 0xA5.., the NaN/huge-index
    // pattern, or - random / stale modes - a valid but unrelated permutation. A routine that reads such an argument shows up as a
    // clean/dirty (C06, C19, C07, C08) or solo/history (C09) difference, or as a sanitizer report.
    void junk_bytes(void *p, size_t bytes) {
        unsigned char *c = (unsigned char *)p;
        switch (ctx->garbage) {
        case G_ZERO: return;
        case G_FF: memset(c, 0xFF, bytes); return;
        case G_NAN: { static const unsigned char pat[4] = {0xAD, 0xDE, 0xF4, 0x7F}; for (size_t i = 0; i < bytes; i++) c[i] = pat[i & 3]; return; }
        default: memset(c, 0xA5, bytes); return;
        }
    }
    void junk_perm(int *p, int n, uint64_t seed) {
        if (ctx->garbage == G_ZERO || n <= 0) return;
        if (ctx->garbage == G_RANDOM || ctx->garbage == G_STALE) { Rng g(mix3(seed, 0x0BAD, (uint64_t)n)); for (int i = 0; i < n; i++) p[i] = i; for (int i = n - 1; i > 0; i--) std::swap(p[i], p[(int)g.below((uint64_t)i + 1)]); }
        else junk_bytes(p, (size_t)n * sizeof(int));
    }
    void junk_lu_objects(Slot<K> &s, bool glu = true) { if (ctx->garbage == G_ZERO) return; junk_bytes(&s.L, sizeof s.L); junk_bytes(&s.U, sizeof s.U); if (glu) junk_bytes(&s.Glu, sizeof s.Glu); }

    void set_options(const Op &o, superlu_options_t &opt, bool ilu) {
        if (ilu) ilu_set_default_options(&opt); else set_default_options(&opt);
        opt.Fact = (fact_t)o.fact; opt.Equil = (yes_no_t)o.equil; opt.ColPerm = (colperm_t)o.colperm; opt.Trans = (trans_t)o.trans;
        opt.IterRefine = (IterRefine_t)o.refine; opt.DiagPivotThresh = o.thresh; opt.SymmetricMode = (yes_no_t)o.symmode;
        opt.PivotGrowth = (yes_no_t)o.pivgrowth; opt.ConditionNumber = (yes_no_t)o.condnum; opt.PrintStat = NO;
        if (ilu) {
            opt.RowPerm = (rowperm_t)o.rowperm; opt.ILU_DropRule = o.droprule; opt.ILU_DropTol = o.droptol; opt.ILU_FillFactor = o.fillfactor;
            opt.ILU_Norm = (norm_t)o.ilunorm; opt.ILU_MILU = (milu_t)o.milu; opt.ILU_FillTol = o.filltol;
        }
    }

    void write_values(Slot<K> &s, const std::vector<double> &re, const std::vector<double> &im) {
        // (re,im) are in CSC order of the mathematical matrix; storage may be NR
        S *v = (S *)((NCformat *)s.A.Store)->nzval;
        if (s.storage == 0) { for (long k = 0; k < s.nnz; k++) v[k] = ScalarOps<S>::make(re[k], im.empty() ? 0 : im[k]); }
        else {
            Mat t = s.orig; t.re = re; t.im = im.empty() ? std::vector<double>(re.size(), 0.0) : im;
            std::vector<int> rp, ci; std::vector<double> r2, i2; csc_to_csr(t, rp, ci, r2, i2);
            for (long k = 0; k < s.nnz; k++) v[k] = ScalarOps<S>::make(r2[k], i2[k]);
        }
    }

    void adopt_values(Slot<K> &s, const Op &o) {
        if (!o.re.empty() && (long)o.re.size() == s.nnz) { s.orig.re = o.re; s.orig.im = o.im.empty() ? std::vector<double>(o.re.size(), 0.0) : o.im; }
    }
    void destroy_lu(Slot<K> &s) {
        if (!s.haveLU) return;
        if (s.lu_lwork == 0) { Destroy_SuperNode_Matrix(&s.L); Destroy_CompCol_Matrix(&s.U); }
        else { Destroy_SuperMatrix_Store(&s.L); Destroy_SuperMatrix_Store(&s.U); }
        s.haveLU = false; s.lu_valid = false;
    }
    // after an out-of-space return of a fresh factorization there are no factor objects; after one of a SamePattern_SameRowPerm
    // call the caller still owns the L and U it handed in and releases them the documented way
    void drop_lu_after_nospace(Slot<K> &s, bool was_readopted) {
        if (was_readopted && s.haveLU) destroy_lu(s);
        s.haveLU = false; s.lu_valid = false;
    }
    void destroy_slot(Slot<K> &s) {
        destroy_lu(s);
        if (s.haveA) {
            if (s.storage == 0) Destroy_CompCol_Matrix(&s.A); else Destroy_CompRow_Matrix(&s.A);
            rt_caller_free(s.perm_c); rt_caller_free(s.perm_r); rt_caller_free(s.etree); rt_caller_free(s.Rs); rt_caller_free(s.Cs);
            s.perm_c = s.perm_r = s.etree = nullptr; s.Rs = s.Cs = nullptr; s.haveA = false; s.have_pattern = false;
        }
        s.ws.release();
    }

    FactorCaps caps_of(Slot<K> &s) {
        FactorCaps c;
        if (s.lu_lwork == 0) { c.lsub = s.Glu.nzlmax; c.lusup = s.Glu.nzlumax; c.ucol = s.Glu.nzumax; }
        else { long words = s.ws.lwork / 4; c.lsub = words; c.lusup = words; c.ucol = words; }
        return c;
    }
    // In USER mode every factor array must lie inside the caller's workspace
    std::string check_lu_inside_workspace(Slot<K> &s) {
        const SCformat *Ls = (const SCformat *)s.L.Store; const NCformat *Us = (const NCformat *)s.U.Store;
        int n = s.n;
        struct { const void *p; size_t b; const char *nm; } arr[] = {
            {Ls->sup_to_col, (size_t)(n + 1) * sizeof(int), "xsup"}, {Ls->col_to_sup, (size_t)(n + 1) * sizeof(int), "supno"},
            {Ls->rowind_colptr, (size_t)(n + 1) * sizeof(int_t), "xlsub"}, {Ls->nzval_colptr, (size_t)(n + 1) * sizeof(int_t), "xlusup"},
            {Us->colptr, (size_t)(n + 1) * sizeof(int_t), "xusub"}};
        for (auto &a : arr) if (!s.ws.contains(a.p, a.b)) return std::string("factor array ") + a.nm + " lies outside the caller workspace";
        return "";
    }
    std::string check_lu_arrays_inside_workspace(Slot<K> &s) {
        const SCformat *Ls = (const SCformat *)s.L.Store; const NCformat *Us = (const NCformat *)s.U.Store; int n = s.n;
        if (!s.ws.contains(Ls->rowind, (size_t)Ls->rowind_colptr[n] * sizeof(int_t))) return "lsub outside the caller workspace";
        if (!s.ws.contains(Ls->nzval, (size_t)Ls->nzval_colptr[n] * sizeof(S))) return "lusup outside the caller workspace";
        if (!s.ws.contains(Us->rowind, (size_t)Us->colptr[n] * sizeof(int_t))) return "usub outside the caller workspace";
        if (!s.ws.contains(Us->nzval, (size_t)Us->colptr[n] * sizeof(S))) return "ucol outside the caller workspace";
        return "";
    }

    // Carried state of a caller workspace (GlobalLU_t::stack, handed back by SamePattern_SameRowPerm calls): after a factorization
    // that returned factors the temporary tail has been released and the accounting describes exactly the factor arrays -
    // otherwise later re-use steps inherit a stack that looks fuller (or emptier) than it is
    std::string check_stack(Slot<K> &s) {
        const LU_stack_t &st = s.Glu.stack; long sz = (s.lu_lwork / 4) * 4; char b[256];
        if ((long)st.size != sz || (long)st.top2 != (long)st.size || (long)st.used != (long)st.top1 || st.top1 < 0 || (long)st.top1 > sz) {
            snprintf(b, sizeof b, "workspace accounting after the call: size %ld top1 %ld top2 %ld used %ld (lwork %ld): used must equal top1 and top2 must equal size once the work arrays are released", (long)st.size, (long)st.top1, (long)st.top2, (long)st.used, (long)s.lu_lwork);
            return b; }
        if (st.array != (void *)s.ws.work) return "workspace accounting: stack.array is not the caller's work";
        const SCformat *Ls = (const SCformat *)s.L.Store; const NCformat *Us = (const NCformat *)s.U.Store; int n = s.n;
        const unsigned char *top = s.ws.work + st.top1;
        struct { const void *p; size_t bytes; } arr[] = {{Ls->rowind, (size_t)Ls->rowind_colptr[n] * sizeof(int_t)}, {Ls->nzval, (size_t)Ls->nzval_colptr[n] * sizeof(S)}, {Us->rowind, (size_t)Us->colptr[n] * sizeof(int_t)}, {Us->nzval, (size_t)Us->colptr[n] * sizeof(S)}};
        for (auto &a : arr) if ((const unsigned char *)a.p + a.bytes > top) return "workspace accounting: a factor array extends beyond stack.top1";
        return "";
    }

    void snap_lu(Slot<K> &s, Snapshot &sn) {
        const SCformat *Ls = (const SCformat *)s.L.Store; const NCformat *Us = (const NCformat *)s.U.Store; int n = s.n;
        sn.val("L.nnz", (long)Ls->nnz); sn.val("L.nsuper", (long)Ls->nsuper);
        sn.add("L.xsup", Ls->sup_to_col, (size_t)(Ls->nsuper + 2) * sizeof(int));
        sn.add("L.supno", Ls->col_to_sup, (size_t)n * sizeof(int));
        sn.add("L.xlsub", Ls->rowind_colptr, (size_t)(n + 1) * sizeof(int_t));
        sn.add("L.lsub", Ls->rowind, (size_t)Ls->rowind_colptr[n] * sizeof(int_t));
        sn.add("L.xlusup", Ls->nzval_colptr, (size_t)(n + 1) * sizeof(int_t));
        sn.add("L.lusup", Ls->nzval, (size_t)Ls->nzval_colptr[n] * sizeof(S));
        sn.val("U.nnz", (long)Us->nnz);
        sn.add("U.xusub", Us->colptr, (size_t)(n + 1) * sizeof(int_t));
        sn.add("U.usub", Us->rowind, (size_t)Us->colptr[n] * sizeof(int_t));
        sn.add("U.ucol", Us->nzval, (size_t)Us->colptr[n] * sizeof(S));
    }
    void snap_A(Slot<K> &s, Snapshot &sn, const char *pfx) {
        const NCformat *As = (const NCformat *)s.A.Store; int nc = s.storage == 0 ? s.n : s.m;
        sn.add(std::string(pfx) + "A.ptr", As->colptr, (size_t)(nc + 1) * sizeof(int_t));
        sn.add(std::string(pfx) + "A.idx", As->rowind, (size_t)s.nnz * sizeof(int_t));
        sn.add(std::string(pfx) + "A.val", As->nzval, (size_t)s.nnz * sizeof(S));
        sn.val(std::string(pfx) + "A.hdr", (long)s.A.nrow * 1000003L + s.A.ncol * 101 + (long)s.A.Stype * 7 + (long)s.A.Dtype * 3 + (long)s.A.Mtype);
    }

    void make_rhs(const Op &o, int n, int nrhs, int ld, S *b) {
        Rng g(mix3(o.rhs_seed, 17, (uint64_t)nrhs));
        for (int j = 0; j < nrhs; j++) {
            bool zerocol = g.chance(0.05);
            for (int i = 0; i < ld; i++) {
                if (i >= n) { b[i + (size_t)j * ld] = ScalarOps<S>::make(777.0 + i, K::cplx ? -55.0 : 0); continue; }
                double re = zerocol ? 0 : g.sym(), im = (K::cplx && !zerocol) ? g.sym() : 0;
                if (g.chance(0.05)) { re = 0; im = 0; }
                b[i + (size_t)j * ld] = ScalarOps<S>::make(re, im);
            }
        }
    }
    bool padding_intact(int n, int nrhs, int ld, const S *b) {
        for (int j = 0; j < nrhs; j++) for (int i = n; i < ld; i++) {
            S e = ScalarOps<S>::make(777.0 + i, K::cplx ? -55.0 : 0);
            if (memcmp(&e, &b[i + (size_t)j * ld], sizeof(S)) != 0) return false;
        }
        return true;
    }
    void make_permc(uint64_t seed, int n, int *p) {
        Rng g(mix3(seed, 23, (uint64_t)n));
        for (int i = 0; i < n; i++) p[i] = i;
        for (int i = n - 1; i > 0; i--) std::swap(p[i], p[(int)g.below((uint64_t)i + 1)]);
    }

    // rsym: symmetric storage (lower triangle only; the reader expands it); rbase0: zero-based coordinate files;
    // rfmt: which Fortran edit descriptors a Harwell-Boeing / Rutherford-Boeing file uses (low 2 bits: integers, next 2: values)
    static std::string print_matrix_file(const Mat &M0, const std::string &fmt, int rsym, int rbase0, int rfmt) {
        std::string t; char b[256];
        Mat M = M0;
        if (rsym) { // keep the lower triangle
            M.colptr.assign(M0.n + 1, 0); M.rowind.clear(); M.re.clear(); M.im.clear();
            for (int j = 0; j < M0.n; j++) { for (int k = M0.colptr[j]; k < M0.colptr[j + 1]; k++) if (M0.rowind[k] >= j) { M.rowind.push_back(M0.rowind[k]); M.re.push_back(M0.re[k]); M.im.push_back(M0.im[k]); }
                M.colptr[j + 1] = (int)M.rowind.size(); }
        }
        if (fmt == "hb" || fmt == "rb") {
            bool hb = fmt == "hb";
            static const struct { const char *f; int per, w; } IF[] = {{"(8I10)", 8, 10}, {"(10I8)", 10, 8}, {"(16I5)", 16, 5}, {"(4I20)", 4, 20}};
            static const struct { const char *f; int per, w, prec; char e; } VF[] = {{"(3E25.16)", 3, 25, 16, 'E'}, {"(1P3E25.16)", 3, 25, 16, 'E'}, {"(1P2D30.17)", 2, 30, 17, 'D'}, {"(4E20.12)", 4, 20, 12, 'E'}};
            auto &I = IF[rfmt & 3]; auto &V = VF[(rfmt >> 2) & 3];
            int nnz = M.nnz(); int nval = K::cplx ? 2 * nnz : nnz;
            int ptrcrd = (M.n + 1 + I.per - 1) / I.per, indcrd = (nnz + I.per - 1) / I.per, valcrd = (nval + V.per - 1) / V.per;
            char ty[4]; ty[0] = K::cplx ? 'C' : 'R'; ty[1] = rsym ? 'S' : 'U'; ty[2] = 'A'; ty[3] = 0;
            if (!hb || (rfmt & 16)) for (int q = 0; q < 3; q++) ty[q] = (char)tolower(ty[q]);
            snprintf(b, sizeof b, "%-72s%-8s\n", "simulated lifecycle matrix", "SIMKEY"); t += b;
            if (hb) snprintf(b, sizeof b, "%14d%14d%14d%14d%14d\n", ptrcrd + indcrd + valcrd, ptrcrd, indcrd, valcrd, 0);
            else snprintf(b, sizeof b, "%14d%14d%14d%14d\n", ptrcrd + indcrd + valcrd, ptrcrd, indcrd, valcrd);
            t += b;
            snprintf(b, sizeof b, "%3s%11s%14d%14d%14d%14d\n", ty, "", M.m, M.n, nnz, 0); t += b;
            if (hb) snprintf(b, sizeof b, "%-16s%-16s%-20s%-20s\n", I.f, I.f, V.f, ""); else snprintf(b, sizeof b, "%-16s%-16s%-20s\n", I.f, I.f, V.f);
            t += b;
            for (int j = 0; j <= M.n; j++) { snprintf(b, sizeof b, "%*d", I.w, M.colptr[j] + 1); t += b; if (j % I.per == I.per - 1 || j == M.n) t += "\n"; }
            for (int k = 0; k < nnz; k++) { snprintf(b, sizeof b, "%*d", I.w, M.rowind[k] + 1); t += b; if (k % I.per == I.per - 1 || k == nnz - 1) t += "\n"; }
            int cnt = 0;
            for (int k = 0; k < nnz; k++) for (int c = 0; c < (K::cplx ? 2 : 1); c++) {
                double v = c ? M.im[k] : M.re[k]; v = (double)(typename K::real)v;
                snprintf(b, sizeof b, "%*.*E", V.w, V.prec, v);
                if (V.e == 'D') for (char *q = b; *q; q++) if (*q == 'E') *q = 'D';
                t += b; cnt++;
                if (cnt % V.per == 0 || cnt == nval) t += "\n";
            }
        } else if (fmt == "triple") {
            int off = rbase0 ? 0 : 1;
            snprintf(b, sizeof b, "%d %d\n", M.n, M.nnz()); t += b;
            for (int j = 0; j < M.n; j++) for (int k = M.colptr[j]; k < M.colptr[j + 1]; k++) {
                double re = (double)(typename K::real)M.re[k], im = (double)(typename K::real)M.im[k];
                if (K::cplx) snprintf(b, sizeof b, "%d %d %.17g %.17g\n", M.rowind[k] + off, j + off, re, im); else snprintf(b, sizeof b, "%d %d %.17g\n", M.rowind[k] + off, j + off, re);
                t += b;
            }
        } else { // Matrix Market coordinate
            int off = rbase0 ? 0 : 1;
            snprintf(b, sizeof b, "%%%%MatrixMarket matrix coordinate %s %s\n%% simulated lifecycle matrix\n%d %d %d\n", K::cplx ? "complex" : "real", rsym ? "symmetric" : "general", M.m, M.n, M.nnz()); t += b;
            for (int j = 0; j < M.n; j++) for (int k = M.colptr[j]; k < M.colptr[j + 1]; k++) {
                double re = (double)(typename K::real)M.re[k], im = (double)(typename K::real)M.im[k];
                if (K::cplx) snprintf(b, sizeof b, "%d %d %.17g %.17g\n", M.rowind[k] + off, j + off, re, im); else snprintf(b, sizeof b, "%d %d %.17g\n", M.rowind[k] + off, j + off, re);
                t += b;
            }
        }
        return t;
    }
    // number of entries of the full matrix a symmetric-storage file of M's lower triangle describes
    static long sym_full_nnz(const Mat &M) { long d = 0, o = 0; for (int j = 0; j < M.n; j++) for (int k = M.colptr[j]; k < M.colptr[j + 1]; k++) { if (M.rowind[k] == j) d++; else if (M.rowind[k] > j) o++; } return d + 2 * o; }

    // ------------------------------------------------------------ operations
    void op_new(const Op &o, OpResult &r) {
        Slot<K> &s = slots[o.slot];
        if (s.haveA) destroy_slot(s);
        if (o.mat < 0 || o.mat >= (int)plan->mats.size()) { r.skipped = true; r.skip_reason = "no such matrix"; return; }
        const Mat &M = plan->mats[o.mat];
        s.orig = M; s.m = M.m; s.n = M.n; s.nnz = M.nnz(); s.storage = (o.storage && M.m == M.n) ? 1 : 0;
        if (!o.reader.empty() && M.m == M.n && s.storage == 0) {
            // create through a matrix-file reader fed by an in-memory file (the reader allocates the three arrays)
            int rsym = (o.rsym && o.reader != "triple") ? 1 : 0, rbase0 = (o.rbase0 && (o.reader == "triple" || o.reader == "mm")) ? 1 : 0;
            std::string text = print_matrix_file(M, o.reader, rsym, rbase0, o.rfmt);
            long expect_nnz = rsym ? sym_full_nnz(M) : M.nnz();
            FILE *fp = fmemopen((void *)text.data(), text.size(), "r");
            int rm = 0, rn = 0; int_t rnnz = 0; S *a = nullptr; int_t *asub = nullptr, *xa = nullptr;
            rt_op_begin(ctx, (int)trace.size() - 1, o.faults);
            if (o.reader == "hb") K::readhb(fp, &rm, &rn, &rnnz, &a, &asub, &xa); // closes fp itself
            else if (o.reader == "mm") { K::readMM(fp, &rm, &rn, &rnnz, &a, &asub, &xa); fclose(fp); }
            else { // ?readrb and ?readtriple read stdin: glibc's stdin is assignable; single-task lifecycles only
                FILE *saved = stdin; stdin = fp;
                if (o.reader == "rb") K::readrb(&rm, &rn, &rnnz, &a, &asub, &xa); // closes the stream itself
                else { K::readtriple(&rm, &rn, &rnnz, &a, &asub, &xa); fclose(fp); }
                stdin = saved;
            }
            rt_op_end(ctx);
            if (rm != M.m || rn != M.n || rnnz != expect_nnz) { viol(r, "reader", "reader returned different dimensions"); r.cls = XC_ARGERR; return; }
            K::Create_CompCol_Matrix(&s.A, rm, rn, rnnz, a, asub, xa, SLU_NC, K::dtype, SLU_GE);
            s.nnz = rnnz; s.orig.rowind.resize(rnnz); s.orig.re.resize(rnnz); s.orig.im.resize(rnnz);
            // the reader may order entries inside a column differently: adopt what it returned as the slot's matrix
            for (int j = 0; j <= rn; j++) s.orig.colptr[j] = (int)xa[j];
            for (long k = 0; k < s.nnz; k++) { s.orig.rowind[k] = (int)asub[k]; s.orig.re[k] = (double)ScalarOps<S>::re(a[k]); s.orig.im[k] = (double)ScalarOps<S>::im(a[k]); }
            int mm = std::max(M.m, M.n);
            s.perm_c = cmalloc<int>(mm); s.perm_r = cmalloc<int>(mm); s.etree = cmalloc<int>(mm); s.Rs = cmalloc<R>(mm); s.Cs = cmalloc<R>(mm);
            s.equed[0] = 'N'; s.haveA = true; s.have_pattern = false; s.haveLU = false; s.lu_valid = false; s.last_cls = XC_NONE;
            r.cls = XC_OK;
            if (cfg.capture) snap_A(s, r.snap, "read");
            return;
        }
        S *val = cmalloc<S>(s.nnz); int_t *idx = cmalloc<int_t>(s.nnz); int_t *ptr = cmalloc<int_t>((size_t)M.n + 1 + (s.storage ? M.m - M.n : 0));
        if (s.storage == 0) {
            for (long k = 0; k < s.nnz; k++) { val[k] = ScalarOps<S>::make(M.re[k], M.im[k]); idx[k] = M.rowind[k]; }
            for (int j = 0; j <= M.n; j++) ptr[j] = M.colptr[j];
            K::Create_CompCol_Matrix(&s.A, M.m, M.n, (int_t)s.nnz, val, idx, ptr, SLU_NC, K::dtype, SLU_GE);
        } else {
            std::vector<int> rp, ci; std::vector<double> re, im; csc_to_csr(M, rp, ci, re, im);
            for (long k = 0; k < s.nnz; k++) { val[k] = ScalarOps<S>::make(re[k], im[k]); idx[k] = ci[k]; }
            for (int i = 0; i <= M.m; i++) ptr[i] = rp[i];
            K::Create_CompRow_Matrix(&s.A, M.m, M.n, (int_t)s.nnz, val, idx, ptr, SLU_NR, K::dtype, SLU_GE);
        }
        int mm = std::max(M.m, M.n);
        s.perm_c = cmalloc<int>(mm); s.perm_r = cmalloc<int>(mm); s.etree = cmalloc<int>(mm); s.Rs = cmalloc<R>(mm); s.Cs = cmalloc<R>(mm);
        s.equed[0] = 'N'; s.haveA = true; s.have_pattern = false; s.haveLU = false; s.lu_valid = false; s.last_cls = XC_NONE;
        r.cls = XC_OK;
    }

    struct DriverArgs {
        Slot<K> *s; const Op *o; superlu_options_t opt; SuperMatrix B, X; S *b, *x; int nrhs, ld, ldx; R *ferr, *berr; R rpg, rcond;
        mem_usage_t mu; SuperLUStat_t stat; int_t info; void *work; int_t lwork;
    };

    // the actual library call, isolated so that abort / hang can unwind to here
    int guarded(void (*body)(World *, void *), void *arg) {
        jmp_buf jb; volatile int code = 0;
        ctx->escape = &jb; ctx->escape_code = 0;
        uint64_t save_budget = ctx->budget;
        ctx->budget = ctx->steps + cfg.op_budget;
        if ((code = setjmp(jb)) == 0) body(this, arg);
        ctx->escape = nullptr; ctx->budget = save_budget;
        return code;
    }
    static void body_gssvx(World *w, void *p) {
        DriverArgs *a = (DriverArgs *)p; Slot<K> &s = *a->s;
        K::gssvx(&a->opt, &s.A, s.perm_c, s.perm_r, s.etree, s.equed, s.Rs, s.Cs, &s.L, &s.U, a->work, a->lwork, &a->B, &a->X,
                 &a->rpg, &a->rcond, a->ferr, a->berr, &s.Glu, &a->mu, &a->stat, &a->info);
    }
    static void body_gsisx(World *w, void *p) {
        DriverArgs *a = (DriverArgs *)p; Slot<K> &s = *a->s;
        K::gsisx(&a->opt, &s.A, s.perm_c, s.perm_r, s.etree, s.equed, s.Rs, s.Cs, &s.L, &s.U, a->work, a->lwork, &a->B, &a->X,
                 &a->rpg, &a->rcond, &s.Glu, &a->mu, &a->stat, &a->info);
    }
    static void body_gssv(World *w, void *p) {
        DriverArgs *a = (DriverArgs *)p; Slot<K> &s = *a->s;
        K::gssv(&a->opt, &s.A, s.perm_c, s.perm_r, &s.L, &s.U, &a->B, &a->stat, &a->info);
    }

    int classify(long info, int n, bool query, bool condnum) {
        if (query) return XC_QUERY;
        if (info == 0) return XC_OK;
        if (info < 0) return XC_ARGERR;
        if (info <= n) return XC_SINGULAR;
        if (info == n + 1 && condnum) return XC_ILLCOND;
        return XC_NOSPACE;
    }

    // Expert drivers: gssvx (complete LU) and gsisx (incomplete LU)
    void op_expert(const Op &o0, OpResult &r, bool ilu) {
        Op o = o0;
        Slot<K> &s = slots[o.slot];
        if (!s.haveA || s.m != s.n) { r.skipped = true; r.skip_reason = "no square matrix in slot"; return; }
        int n = s.n; bool query = (o.lwork == -1);
        // ---- documented preconditions of the Fact modes (the history model) ----
        if (o.fact == SamePattern && !(s.have_pattern && s.last_cls != XC_NOSPACE)) { r.skipped = true; r.skip_reason = "SamePattern without a remembered ordering"; return; }
        if (o.fact == SamePattern_SameRowPerm && !query && !(s.lu_valid && s.lu_ilu == ilu && s.glu_valid)) { r.skipped = true; r.skip_reason = "SameRowPerm without valid factors of the same kind"; return; }
        if (o.fact == FACTORED && !(s.lu_valid && s.lu_ilu == ilu)) { r.skipped = true; r.skip_reason = "FACTORED without valid factors"; return; }
        // incomplete LU re-using the row permutation together with MC64: perm_r then mixes two row numberings (MC64's fold); what
        // that combination should return is the content of C15 (not claimed)
        if (ilu && o.fact == SamePattern_SameRowPerm && o.rowperm != NOROWPERM) { r.skipped = true; r.skip_reason = "ILU SameRowPerm with MC64"; return; }
        if (query && o.fact == FACTORED) { r.skipped = true; r.skip_reason = "query with FACTORED"; return; }
        if (o.trans == CONJ && s.storage == 1 && K::cplx) o.trans = TRANS; // CONJ on row storage: outside the claimed properties
        if (s.storage == 1 && ilu) { /* fine */ }
        if (o.fact != DOFACT) o.symmode = s.pat_symmode; else if (!query) s.pat_symmode = o.symmode;
        DriverArgs a; memset(&a.B, 0, sizeof a.B); memset(&a.X, 0, sizeof a.X);
        a.s = &s; a.o = &o; set_options(o, a.opt, ilu);
        Snapshot pre_args;           // for the query / resolve purity oracles
        std::vector<unsigned char> saveA; char save_equed = s.equed[0]; std::vector<R> saveR, saveC; std::vector<int> savePc, saveEt, savePr;
        bool readopt = (o.fact == SamePattern_SameRowPerm) && !query;
        if (query) {
            // a careful caller can not rely on "no side effects" (see DESIGN §7 d): keep a copy so the history can go on
            const NCformat *As = (const NCformat *)s.A.Store;
            saveA.assign((unsigned char *)As->nzval, (unsigned char *)As->nzval + (size_t)s.nnz * sizeof(S));
            saveR.assign(s.Rs, s.Rs + n); saveC.assign(s.Cs, s.Cs + n); savePc.assign(s.perm_c, s.perm_c + n); saveEt.assign(s.etree, s.etree + n); savePr.assign(s.perm_r, s.perm_r + n);
            if (o.fact == SamePattern_SameRowPerm && !(s.lu_valid && s.lu_ilu == ilu && s.glu_valid)) a.opt.Fact = DOFACT;
        } else if (o.fact != FACTORED) {
            if (o.fact != SamePattern_SameRowPerm) destroy_lu(s);
            if (!o.re.empty() && (long)o.re.size() == s.nnz) { s.orig.re = o.re; s.orig.im = o.im.empty() ? std::vector<double>(o.re.size(), 0.0) : o.im; }
            write_values(s, s.orig.re, s.orig.im);
            // equed is an output of a factorizing call: the caller's variable holds whatever an earlier call (or nobody) left there
            { static const char stale[4] = {'B', 'R', 'C', 'X'}; s.equed[0] = stale[(o.rhs_seed >> 9) & 3]; }
            if (o.fact == SamePattern_SameRowPerm) { o.lwork = s.lu_lwork; o.align = s.ws.align; }
            else if (o.lwork > 0) s.ws.alloc(o.lwork, o.align, o.wsgarbage, wsrng);
            else s.ws.release();
            // what this call only writes: perm_r and the L, U, Glu objects unless they are handed back, perm_c and the etree of a fresh
            // ordering, the scale factors
            if (o.fact != SamePattern_SameRowPerm) { junk_perm(s.perm_r, n, o.rhs_seed); junk_lu_objects(s); }
            if (o.fact == DOFACT) { if (o.colperm != MY_PERMC) junk_perm(s.perm_c, n, o.rhs_seed ^ 1); junk_perm(s.etree, n, o.rhs_seed ^ 2); }
            junk_bytes(s.Rs, n * sizeof(R)); junk_bytes(s.Cs, n * sizeof(R));
        } else { o.lwork = s.lu_lwork; }
        if (o.colperm == MY_PERMC && o.fact == DOFACT) make_permc(o.permc_seed, n, s.perm_c);
        a.work = (o.lwork > 0) ? (void *)s.ws.work : nullptr; a.lwork = (int_t)o.lwork;
        r.lwork_used = o.lwork;
        a.nrhs = o.nrhs; a.ld = n + o.ldpad; a.ldx = n + (o.ldxpad >= 0 ? o.ldxpad : o.ldpad);
        a.b = cmalloc<S>((size_t)a.ld * std::max(1, a.nrhs)); a.x = cmalloc<S>((size_t)a.ldx * std::max(1, a.nrhs));
        make_rhs(o, n, a.nrhs, a.ld, a.b);
        { Op ox = o; ox.rhs_seed ^= 0x5555; make_rhs(ox, n, a.nrhs, a.ldx, a.x); }
        std::vector<S> b_in(a.b, a.b + (size_t)a.ld * std::max(1, a.nrhs));
        K::Create_Dense_Matrix(&a.B, n, a.nrhs, a.b, a.ld, SLU_DN, K::dtype, SLU_GE);
        K::Create_Dense_Matrix(&a.X, n, a.nrhs, a.x, a.ldx, SLU_DN, K::dtype, SLU_GE);
        a.ferr = cmalloc<R>(std::max(1, a.nrhs)); a.berr = cmalloc<R>(std::max(1, a.nrhs));
        for (int j = 0; j < std::max(1, a.nrhs); j++) a.ferr[j] = a.berr[j] = (R)-7;
        a.rpg = (R)-7; a.rcond = (R)-7; a.info = -777; a.mu.for_lu = -7; a.mu.total_needed = -7;
        StatInit(&a.stat);
        if ((query && cfg.chk_query_pure) || (o.fact == FACTORED && cfg.chk_resolve_pure)) {
            snap_A(s, pre_args, ""); pre_args.add("perm_c", s.perm_c, n * sizeof(int)); pre_args.add("perm_r", s.perm_r, n * sizeof(int));
            pre_args.add("etree", s.etree, n * sizeof(int)); pre_args.val("equed", s.equed[0]); pre_args.add("R", s.Rs, n * sizeof(R)); pre_args.add("C", s.Cs, n * sizeof(R));
            if (s.haveLU) snap_lu(s, pre_args);
            if (query) { pre_args.add("B", a.b, sizeof(S) * (size_t)a.ld * std::max(1, a.nrhs)); pre_args.add("X", a.x, sizeof(S) * (size_t)a.ldx * std::max(1, a.nrhs)); }
        }
        std::vector<int> prev_permr; if (readopt) prev_permr.assign(s.perm_r, s.perm_r + n);
        Snapshot prevLU; if (readopt && cfg.capture) snap_lu(s, prevLU);
        uint64_t steps0 = ctx->steps;
        rt_op_begin(ctx, (int)trace.size() - 1, o.faults);
        int esc = guarded(ilu ? body_gsisx : body_gssvx, &a);
        rt_op_end(ctx);
        r.steps = ctx->steps - steps0; r.growth_reqs = ctx->growth_count; r.growth_log = ctx->growth_log;
        for (auto &g : r.growth_log) if (g.failed) r.growth_failed++;
        r.escaped = esc;
        if (esc) { r.cls = esc == ESC_ABORT ? XC_ABORT : XC_HANG; dead = true; viol(r, esc == ESC_ABORT ? "abort" : "hang", esc == ESC_ABORT ? ctx->abort_msg : "step budget exceeded"); return; }
        r.info = (long)a.info; r.cls = classify(r.info, n, query, o.condnum != 0);
        if (!s.ws.intact()) viol(r, "canary", "bytes outside [work, work+lwork) were written");
        if (r.cls == XC_ARGERR) viol(r, "argerror", "valid call rejected with info " + std::to_string(r.info));
        bool factored_now = !query && o.fact != FACTORED;
        bool have_factors = false;
        if (query) {
            r.query_estimate = r.info - n;
            if (cfg.chk_query_pure) {
                Snapshot post; snap_A(s, post, ""); post.add("perm_c", s.perm_c, n * sizeof(int)); post.add("perm_r", s.perm_r, n * sizeof(int));
                post.add("etree", s.etree, n * sizeof(int)); post.val("equed", s.equed[0]); post.add("R", s.Rs, n * sizeof(R)); post.add("C", s.Cs, n * sizeof(R));
                if (s.haveLU) snap_lu(s, post);
                post.add("B", a.b, sizeof(S) * (size_t)a.ld * std::max(1, a.nrhs)); post.add("X", a.x, sizeof(S) * (size_t)a.ldx * std::max(1, a.nrhs));
                std::string d = snap_diff(pre_args, post);
                if (!d.empty()) viol(r, "query-mutates", d);
                if (!(r.query_estimate > 0) || !(a.mu.total_needed > 0)) viol(r, "query-estimate", "estimate not positive");
            }
            // restore what the query may have disturbed so the history can continue
            memcpy(((NCformat *)s.A.Store)->nzval, saveA.data(), saveA.size()); s.equed[0] = save_equed;
            memcpy(s.Rs, saveR.data(), n * sizeof(R)); memcpy(s.Cs, saveC.data(), n * sizeof(R)); memcpy(s.perm_c, savePc.data(), n * sizeof(int));
            memcpy(s.etree, saveEt.data(), n * sizeof(int)); memcpy(s.perm_r, savePr.data(), n * sizeof(int));
        } else if (factored_now) {
            s.last_cls = r.cls; s.last_thresh = o.thresh; s.lu_mc64 = ilu && o.rowperm != NOROWPERM;
            if (r.cls == XC_OK || r.cls == XC_ILLCOND || r.cls == XC_SINGULAR) {
                s.haveLU = true; s.lu_lwork = o.lwork; s.lu_ilu = ilu; s.have_pattern = true; s.glu_valid = true;
                s.lu_valid = (r.cls != XC_SINGULAR) || ilu;
                have_factors = true;
                r.expansions = a.stat.expansions;
                if (o.lwork == 0 && !readopt) { const SCformat *Ls = (const SCformat *)s.L.Store; const NCformat *Us = (const NCformat *)s.U.Store;
                    if (Ls && Us && Ls->nzval_colptr && Us->colptr && Ls->rowind_colptr) { r.slack_lusup = (long)s.Glu.nzlumax - (long)Ls->nzval_colptr[n]; r.slack_ucol = (long)s.Glu.nzumax - (long)Us->colptr[n]; r.slack_lsub = (long)s.Glu.nzlmax - (long)Ls->rowind_colptr[n]; } }
            } else if (r.cls == XC_NOSPACE) {
                drop_lu_after_nospace(s, readopt);
            }
        } else { have_factors = s.haveLU; }
        if (ilu && r.cls == XC_SINGULAR) r.cls = XC_OK; // gsisx: 0 < info <= n counts replaced zero pivots, the call succeeded
        if (ilu && have_factors && factored_now) {
            // incomplete LU can break down (a column without any admissible pivot candidate): the routine then reports it only
            // through info and leaves rows unpivoted. That is the content of C15 (not claimed): such factors are set aside.
            bool hole = false; for (int i = 0; i < n; i++) if (s.perm_r[i] < 0 || s.perm_r[i] >= n) hole = true;
            if (hole) { r.cls = XC_BREAKDOWN; s.lu_valid = false; s.last_cls = XC_BREAKDOWN; }
        }

        // ---- snapshot of every output (defined portions only) ----
        Snapshot &sn = r.snap;
        bool solved = (r.cls == XC_OK || r.cls == XC_ILLCOND) && a.nrhs > 0;
        if (cfg.capture) {
            sn.val("info", r.cls == XC_NOSPACE ? (long)-1 : r.info); // the byte count of an out-of-space return depends on the schedule by design
            sn.val("cls", r.cls);
            if (!query && r.cls != XC_NOSPACE && r.cls != XC_ARGERR) {
                sn.val("equed", s.equed[0]);
                bool rowequ = s.equed[0] == 'R' || s.equed[0] == 'B', colequ = s.equed[0] == 'C' || s.equed[0] == 'B';
                if (rowequ) sn.add("R", s.Rs, n * sizeof(R));
                if (colequ) sn.add("C", s.Cs, n * sizeof(R));
                sn.add("perm_c", s.perm_c, n * sizeof(int)); sn.add("etree", s.etree, n * sizeof(int));
                if (r.cls != XC_SINGULAR || ilu) sn.add("perm_r", s.perm_r, n * sizeof(int)); // content of a singular return is not constrained by any claimed property
                snap_A(s, sn, "post");
            }
        }
        // ---- in-run oracles ----
        std::string serr;
        if (r.cls == XC_BREAKDOWN) serr = "ilu breakdown";
        if (have_factors && (r.cls == XC_OK || r.cls == XC_ILLCOND || r.cls == XC_SINGULAR)) {
            if (s.lu_lwork > 0) { serr = check_lu_inside_workspace(s); if (!serr.empty()) viol(r, "workspace", serr); }
            // (incomplete LU re-using a row permutation is exercised for memory safety only: what its factors should look like is C15's)
            if (factored_now) s.lu_nostruct = (ilu && o.fact == SamePattern_SameRowPerm);
            if (serr.empty() && cfg.chk_structure && !s.lu_nostruct) {
                bool weak = (r.cls == XC_SINGULAR && !ilu); // no property constrains the structure of a singular return
                serr = check_structure<K>(&s.L, &s.U, n, n, weak ? nullptr : s.perm_r, weak ? nullptr : s.perm_c, ilu, caps_of(s), weak);
                if (!serr.empty() && !weak) viol(r, "structure:" + serr.substr(0, serr.find(' ')), serr);
                else if (s.lu_lwork > 0) { serr = check_lu_arrays_inside_workspace(s); if (!serr.empty()) viol(r, "workspace", serr); }
                if (serr.empty() && s.lu_lwork > 0 && factored_now && (r.cls == XC_OK || r.cls == XC_ILLCOND)) { std::string e = check_stack(s); if (!e.empty()) viol(r, "stack-accounting", e); }
            }
            if (serr.empty() && cfg.capture && (r.cls != XC_SINGULAR || ilu)) snap_lu(s, sn);
        }
        if (cfg.capture) {
            if (solved) {
                std::vector<S> xs((size_t)n * a.nrhs);
                for (int j = 0; j < a.nrhs; j++) memcpy(&xs[(size_t)j * n], &a.x[(size_t)j * a.ldx], n * sizeof(S));
                sn.add("X", xs.data(), xs.size() * sizeof(S));
                if (!ilu) { sn.add("ferr", a.ferr, a.nrhs * sizeof(R)); sn.add("berr", a.berr, a.nrhs * sizeof(R)); }
            }
            if (!query) sn.add("B", a.b, sizeof(S) * (size_t)a.ld * a.nrhs);
            if (!query && (r.cls == XC_OK || r.cls == XC_ILLCOND)) {
                if (o.pivgrowth || ilu) sn.val("rpg", a.rpg);
                if (o.condnum) sn.val("rcond", a.rcond);
                if (factored_now) { sn.val("mu.for_lu", a.mu.for_lu); }
                sn.add("ops", a.stat.ops, NPHASES * sizeof(flops_t));
                sn.val("RefineSteps", a.stat.RefineSteps);
                sn.val("stat.expansions", a.stat.expansions);
                if (cfg.capture_clock) sn.add("utime", a.stat.utime, NPHASES * sizeof(double));
            }
            if (r.cls == XC_SINGULAR && !ilu) sn.val("rpg", a.rpg);
        }
        if (factored_now && have_factors && (r.cls == XC_OK || r.cls == XC_ILLCOND) && (!ilu || r.info == 0) && serr.empty()) { // (gsisx with replaced pivots and PivotGrowth returns before reporting) // (for_lu was preset to -7: a call that does not report at all is caught too)
            // reported memory usage describes the factors this call returned: bytes of the stored values, of the row-index arrays and
            // of the pointer arrays (sup_to_col/col_to_sup hold int, every other index array int_t); 16 bytes + float rounding tolerated
            const SCformat *Ls = (const SCformat *)s.L.Store; const NCformat *Us = (const NCformat *)s.U.Store;
            double idx = (double)sizeof(int_t), ns = (double)Ls->nzval_colptr[n], nl = (double)Ls->rowind_colptr[n], nu = (double)Us->colptr[n];
            double expect = (ns + nu) * sizeof(S) + idx * (nl + nu) + (2.0 * n + 1.0) * 4 + (2.0 * n + 2.0) * idx + (n + 1.0) * idx;
            if (!(std::fabs((double)a.mu.for_lu - expect) <= 16 + 1e-6 * expect))
                viol(r, "mem-usage", "for_lu " + std::to_string(a.mu.for_lu) + " does not describe the returned factors: " + std::to_string(expect) + " bytes are used");
        }
        if (a.nrhs > 0 && !padding_intact(n, a.nrhs, a.ld, a.b)) viol(r, "padding", "rows of B beyond n were written");
        if (a.nrhs > 0 && !padding_intact(n, a.nrhs, a.ldx, a.x) && !query) {
            Op ox = o; (void)ox; /* X padding is pre-filled with the same sentinel pattern by make_rhs */ viol(r, "padding", "rows of X beyond n were written");
        }
        if (r.cls == XC_SINGULAR && !ilu && !query) {
            if (memcmp(b_in.data(), a.b, b_in.size() * sizeof(S)) != 0) viol(r, "singular-b", "B changed although the factorization was singular");
        }
        if (o.fact == FACTORED && cfg.chk_resolve_pure && !query && serr.empty()) {
            Snapshot post; snap_A(s, post, ""); post.add("perm_c", s.perm_c, n * sizeof(int)); post.add("perm_r", s.perm_r, n * sizeof(int));
            post.add("etree", s.etree, n * sizeof(int)); post.val("equed", s.equed[0]); post.add("R", s.Rs, n * sizeof(R)); post.add("C", s.Cs, n * sizeof(R));
            if (s.haveLU) snap_lu(s, post);
            std::string d = snap_diff(pre_args, post);
            if (!d.empty()) viol(r, "resolve-mutates", d);
        }
        if (readopt && (r.cls == XC_OK || r.cls == XC_ILLCOND)) {
            r.permr_changed = memcmp(prev_permr.data(), s.perm_r, n * sizeof(int)) != 0;
            if (cfg.capture && serr.empty()) { Snapshot now; snap_lu(s, now); r.f2_bit_equal = snap_diff(prevLU, now).empty(); }
        }
        if (serr.empty() && have_factors && !ilu && n <= cfg.dense_limit && (cfg.chk_identity || cfg.chk_residual)) {
            std::vector<cx> Ad; int am, an; dense_A<K>(&s.A, Ad, am, an);
            std::vector<cx> Ld0, Ud0; dense_LU<K>(&s.L, &s.U, n, n, Ld0, Ud0);
            bool ovf = overflow_plausible<K>(Ld0, Ud0, Ad);
            if (ovf) r.overflow_skipped = true;
            if (!ovf && (r.cls == XC_OK || r.cls == XC_ILLCOND) && cfg.chk_identity && factored_now) {
                IdentityStats st;
                // also when remembered pivots are re-used: [sdcz]pivotL keeps a remembered pivot only if it passes the same threshold test
                double th = o.thresh;
                std::string e = check_identity<K>(Ad, n, n, &s.L, &s.U, s.perm_r, s.perm_c, th, true, &st);
                r.ident_ratio = st.max_ratio;
                if (!e.empty()) viol(r, "identity", e);
            }
            if (r.cls == XC_SINGULAR && cfg.chk_identity) {
                // the reported zero pivot is real: U(info,info) is exactly zero - read straight from the supernode's storage, and only
                // when that storage has a diagonal position for the column at all (after a zero pivot a supernode can have fewer
                // rows than columns, see KF1; then there is nothing to look at)
                const SCformat *Ls = (const SCformat *)s.L.Store; long k = r.info - 1;
                if (k >= 0 && k < n) {
                    int sn = Ls->col_to_sup[k]; if (sn >= 0 && sn <= Ls->nsuper) {
                        int fsupc = Ls->sup_to_col[sn]; long nsupr = Ls->rowind_colptr[fsupc + 1] - Ls->rowind_colptr[fsupc];
                        if (k - fsupc < nsupr && Ls->nzval_colptr[k + 1] - Ls->nzval_colptr[k] == nsupr) {
                            S d = ((const S *)Ls->nzval)[Ls->nzval_colptr[k] + (k - fsupc)];
                            long double dm = std::fabs((long double)ScalarOps<S>::re(d)) + std::fabs((long double)ScalarOps<S>::im(d));
                            if (ovf || !(dm == dm)) r.overflow_skipped = true; // overflow (inf, then NaN) upstream of this column is a legitimate explanation
                            else if (dm != 0) viol(r, "singular-pivot", "info=" + std::to_string(r.info) + " but U(info,info) is not exactly zero");
                        }
                    }
                    // ... and it is the first one: every pivot before it is non-zero (those columns were finished before anything went wrong)
                    // (no overflow excuse: [sdcz]pivotL never selects an exactly zero pivot while the column has a non-zero candidate, and reports the column otherwise)
                    for (long j = 0; j < k; j++) {
                        int sj = Ls->col_to_sup[j]; if (sj < 0 || sj > Ls->nsuper) break;
                        int fs = Ls->sup_to_col[sj]; long nr = Ls->rowind_colptr[fs + 1] - Ls->rowind_colptr[fs];
                        if (!(j - fs < nr && Ls->nzval_colptr[j + 1] - Ls->nzval_colptr[j] == nr)) break;
                        S d = ((const S *)Ls->nzval)[Ls->nzval_colptr[j] + (j - fs)];
                        long double dm = std::fabs((long double)ScalarOps<S>::re(d)) + std::fabs((long double)ScalarOps<S>::im(d));
                        if (!(dm == dm)) break; // NaN: overflow upstream
                        if (dm == 0) { viol(r, "singular-pivot", "info=" + std::to_string(r.info) + " but U(" + std::to_string(j + 1) + "," + std::to_string(j + 1) + ") is already exactly zero: an earlier zero pivot was used and not reported"); break; }
                    }
                }
            }
            if ((r.cls == XC_OK || r.cls == XC_ILLCOND) && cfg.chk_identity && factored_now) {
                // info = 0: no pivot is exactly zero (same reasoning; read from the supernodes, no overflow excuse needed)
                const SCformat *Ls = (const SCformat *)s.L.Store;
                for (long j = 0; j < n; j++) {
                    int sj = Ls->col_to_sup[j]; if (sj < 0 || sj > Ls->nsuper) break;
                    int fs = Ls->sup_to_col[sj]; long nr = Ls->rowind_colptr[fs + 1] - Ls->rowind_colptr[fs];
                    if (!(j - fs < nr && Ls->nzval_colptr[j + 1] - Ls->nzval_colptr[j] == nr)) break;
                    S d = ((const S *)Ls->nzval)[Ls->nzval_colptr[j] + (j - fs)];
                    long double dm = std::fabs((long double)ScalarOps<S>::re(d)) + std::fabs((long double)ScalarOps<S>::im(d));
                    if (!(dm == dm)) break;
                    if (dm == 0) { viol(r, "singular-pivot", "info=0 but U(" + std::to_string(j + 1) + "," + std::to_string(j + 1) + ") is exactly zero"); break; }
                }
            }
            if (!ovf && solved && cfg.chk_residual) {
                std::vector<cx> &Ld = Ld0, &Ud = Ud0;
                bool rowequ = s.equed[0] == 'R' || s.equed[0] == 'B', colequ = s.equed[0] == 'C' || s.equed[0] == 'B';
                int trant = o.trans; bool notran = (o.trans == NOTRANS);
                if (s.storage == 1) { trant = notran ? 1 : 0; notran = !notran; }
                std::vector<cx> Xh((size_t)n * a.nrhs), Bh((size_t)n * a.nrhs);
                for (int j = 0; j < a.nrhs; j++) for (int i = 0; i < n; i++) {
                    S xv = a.x[i + (size_t)j * a.ldx], bv = a.b[i + (size_t)j * a.ld];
                    cx xc((ld)ScalarOps<S>::re(xv), (ld)ScalarOps<S>::im(xv)), bc((ld)ScalarOps<S>::re(bv), (ld)ScalarOps<S>::im(bv));
                    if (notran) { if (colequ) xc /= (ld)s.Cs[i]; } else { if (rowequ) xc /= (ld)s.Rs[i]; }
                    Xh[i + (size_t)j * n] = xc; Bh[i + (size_t)j * n] = bc; // B was scaled in place by the driver
                }
                std::vector<double> be; if (o.refine != NOREFINE) for (int j = 0; j < a.nrhs; j++) be.push_back((double)a.berr[j]);
                long double mr = 0;
                bool xbad = false; for (auto &v : Xh) if (!std::isfinite((double)v.real()) || !std::isfinite((double)v.imag())) xbad = true;
                if (overflow_plausible<K>(Xh, Bh, std::vector<cx>()) || (xbad && solve_may_overflow<K>(n, Ld, Ud, s.perm_r, s.perm_c, trant, Bh, a.nrhs))) r.overflow_skipped = true;
                else {
                    std::string e = check_residual<K>(Ad, n, Ld, Ud, s.perm_r, s.perm_c, trant, Xh, Bh, a.nrhs, be.empty() ? nullptr : be.data(), &mr);
                    r.resid_ratio = mr;
                    if (!e.empty()) viol(r, "residual", e);
                }
            }
        }
        // ---- refinement treats the right-hand sides one by one: column j of a multi-column call is as accurate as column j solved alone
        if (cfg.chk_columns && !ilu && !query && a.nrhs >= 2 && o.refine != NOREFINE && (r.cls == XC_OK || r.cls == XC_ILLCOND) && serr.empty() && s.haveLU && !r.overflow_skipped) {
            int cols[2] = {a.nrhs - 1, (int)((o.rhs_seed >> 12) % (uint64_t)a.nrhs)};
            for (int ci = 0; ci < 2 && !dead; ci++) {
                int j = cols[ci]; if (ci == 1 && j == cols[0]) break;
                DriverArgs t; memset(&t.B, 0, sizeof t.B); memset(&t.X, 0, sizeof t.X);
                t.s = &s; t.o = &o; t.opt = a.opt; t.opt.Fact = FACTORED; t.nrhs = 1; t.ld = a.ld; t.ldx = a.ldx;
                t.b = cmalloc<S>((size_t)t.ld); t.x = cmalloc<S>((size_t)t.ldx);
                memcpy(t.b, &b_in[(size_t)j * a.ld], sizeof(S) * (size_t)t.ld); memset(t.x, 0, sizeof(S) * (size_t)t.ldx);
                K::Create_Dense_Matrix(&t.B, n, 1, t.b, t.ld, SLU_DN, K::dtype, SLU_GE); K::Create_Dense_Matrix(&t.X, n, 1, t.x, t.ldx, SLU_DN, K::dtype, SLU_GE);
                t.ferr = cmalloc<R>(1); t.berr = cmalloc<R>(1); t.ferr[0] = t.berr[0] = (R)-7; t.rpg = (R)-7; t.rcond = (R)-7; t.info = -777;
                t.work = a.work; t.lwork = a.lwork; StatInit(&t.stat);
                int esc2 = guarded(body_gssvx, &t);
                if (esc2) { dead = true; viol(r, esc2 == ESC_ABORT ? "abort" : "hang", "single-column twin of the solve"); }
                else if (t.info == 0 || t.info == n + 1) {
                    double eps = sizeof(R) == 4 ? 5.96e-8 : 1.11e-16;
                    double bm = (double)a.berr[j], b1 = (double)t.berr[0];
                    if (bm == bm && b1 == b1 && b1 >= 0 && bm > 2.0 * std::max(b1, eps))
                        viol(r, "refine-columns", "column " + std::to_string(j + 1) + " of " + std::to_string(a.nrhs) + ": backward error " + std::to_string(bm / eps) + " eps after refinement, but " + std::to_string(b1 / eps) + " eps when the same column is solved alone with the same factors");
                }
                StatFree(&t.stat); Destroy_SuperMatrix_Store(&t.B); Destroy_SuperMatrix_Store(&t.X);
                rt_caller_free(t.b); rt_caller_free(t.x); rt_caller_free(t.ferr); rt_caller_free(t.berr);
            }
        }
        StatFree(&a.stat);
        Destroy_SuperMatrix_Store(&a.B); Destroy_SuperMatrix_Store(&a.X);
        rt_caller_free(a.b); rt_caller_free(a.x); rt_caller_free(a.ferr); rt_caller_free(a.berr);
    }

    // Simple driver
    void op_gssv(const Op &o, OpResult &r) {
        Slot<K> &s = slots[o.slot];
        if (!s.haveA || s.m != s.n) { r.skipped = true; r.skip_reason = "no square matrix in slot"; return; }
        int n = s.n;
        destroy_lu(s); s.ws.release();
        adopt_values(s, o);
        write_values(s, s.orig.re, s.orig.im); s.equed[0] = 'N';
        DriverArgs a; memset(&a.B, 0, sizeof a.B); a.s = &s; a.o = &o; set_options(o, a.opt, false);
        a.opt.Fact = DOFACT; a.opt.Trans = NOTRANS;
        junk_perm(s.perm_r, n, o.rhs_seed); junk_lu_objects(s, false); if (o.colperm != MY_PERMC) junk_perm(s.perm_c, n, o.rhs_seed ^ 1);
        if (o.colperm == MY_PERMC) make_permc(o.permc_seed, n, s.perm_c);
        a.nrhs = o.nrhs; a.ld = n + o.ldpad; a.b = cmalloc<S>((size_t)a.ld * std::max(1, a.nrhs));
        make_rhs(o, n, a.nrhs, a.ld, a.b);
        std::vector<S> b_in(a.b, a.b + (size_t)a.ld * std::max(1, a.nrhs));
        K::Create_Dense_Matrix(&a.B, n, a.nrhs, a.b, a.ld, SLU_DN, K::dtype, SLU_GE);
        StatInit(&a.stat); a.info = -777;
        uint64_t steps0 = ctx->steps;
        rt_op_begin(ctx, (int)trace.size() - 1, o.faults);
        int esc = guarded(body_gssv, &a);
        rt_op_end(ctx);
        r.steps = ctx->steps - steps0; r.growth_reqs = ctx->growth_count; r.growth_log = ctx->growth_log; r.escaped = esc;
        for (auto &g : r.growth_log) if (g.failed) r.growth_failed++;
        if (esc) { r.cls = esc == ESC_ABORT ? XC_ABORT : XC_HANG; dead = true; viol(r, esc == ESC_ABORT ? "abort" : "hang", ctx->abort_msg); return; }
        r.info = (long)a.info; r.cls = classify(r.info, n, false, false);
        if (r.cls == XC_ARGERR) viol(r, "argerror", "valid call rejected with info " + std::to_string(r.info));
        s.last_cls = r.cls; s.last_thresh = o.thresh;
        bool have = (r.cls == XC_OK || r.cls == XC_SINGULAR);
        s.glu_valid = false;
        if (have) { s.haveLU = true; s.lu_lwork = 0; s.lu_ilu = false; s.lu_valid = (r.cls == XC_OK); s.have_pattern = false; r.expansions = a.stat.expansions; }
        Snapshot &sn = r.snap; std::string serr;
        if (cfg.capture) { sn.val("info", r.cls == XC_NOSPACE ? (long)-1 : r.info); sn.val("cls", r.cls); }
        if (have) {
            if (cfg.chk_structure) { bool weak = (r.cls == XC_SINGULAR); serr = check_structure<K>(&s.L, &s.U, n, n, weak ? nullptr : s.perm_r, weak ? nullptr : s.perm_c, false, FactorCaps(), weak); if (!serr.empty() && !weak) viol(r, "structure:" + serr.substr(0, serr.find(' ')), serr); }
            if (serr.empty() && cfg.capture && r.cls == XC_OK) { sn.add("perm_c", s.perm_c, n * sizeof(int)); sn.add("perm_r", s.perm_r, n * sizeof(int)); snap_lu(s, sn); snap_A(s, sn, "post"); sn.add("ops", a.stat.ops, NPHASES * sizeof(flops_t)); if (cfg.capture_clock) sn.add("utime", a.stat.utime, NPHASES * sizeof(double)); }
        }
        if (cfg.capture) sn.add("B", a.b, sizeof(S) * (size_t)a.ld * a.nrhs);
        if (a.nrhs > 0 && !padding_intact(n, a.nrhs, a.ld, a.b)) viol(r, "padding", "rows of B beyond n were written");
        if (r.cls != XC_OK && memcmp(b_in.data(), a.b, b_in.size() * sizeof(S)) != 0) viol(r, "singular-b", "B changed although no solve was possible");
        if (serr.empty() && have && r.cls == XC_OK && n <= cfg.dense_limit && (cfg.chk_identity || cfg.chk_residual)) {
            std::vector<cx> Ad; int am, an; dense_A<K>(&s.A, Ad, am, an);
            std::vector<cx> Ld0, Ud0; dense_LU<K>(&s.L, &s.U, n, n, Ld0, Ud0);
            bool ovf = overflow_plausible<K>(Ld0, Ud0, Ad); if (ovf) r.overflow_skipped = true;
            if (!ovf && cfg.chk_identity) { IdentityStats st; std::string e = check_identity<K>(Ad, n, n, &s.L, &s.U, s.perm_r, s.perm_c, o.thresh, true, &st); r.ident_ratio = st.max_ratio; if (!e.empty()) viol(r, "identity", e); }
            if (!ovf && cfg.chk_residual && a.nrhs > 0) {
                std::vector<cx> &Ld = Ld0, &Ud = Ud0;
                std::vector<cx> Xh((size_t)n * a.nrhs), Bh((size_t)n * a.nrhs);
                for (int j = 0; j < a.nrhs; j++) for (int i = 0; i < n; i++) {
                    S xv = a.b[i + (size_t)j * a.ld], bv = b_in[i + (size_t)j * a.ld];
                    Xh[i + (size_t)j * n] = cx((ld)ScalarOps<S>::re(xv), (ld)ScalarOps<S>::im(xv)); Bh[i + (size_t)j * n] = cx((ld)ScalarOps<S>::re(bv), (ld)ScalarOps<S>::im(bv));
                }
                long double mr = 0;
                if (overflow_plausible<K>(Xh, Bh, std::vector<cx>())) r.overflow_skipped = true;
                else { std::string e = check_residual<K>(Ad, n, Ld, Ud, s.perm_r, s.perm_c, s.storage == 1 ? 1 : 0, Xh, Bh, a.nrhs, nullptr, &mr);
                r.resid_ratio = mr; if (!e.empty()) viol(r, "residual", e); }
            }
        }
        StatFree(&a.stat); Destroy_SuperMatrix_Store(&a.B); rt_caller_free(a.b);
    }

    // Computational routines called one by one: get_perm_c, sp_preorder, gstrf/gsitrf, gstrs, gsrfs, gscon, QuerySpace
    struct PipeArgs { Slot<K> *s; const Op *o; superlu_options_t opt; SuperMatrix AC; bool haveAC; SuperLUStat_t stat; int_t info; void *work; int_t lwork; int phase;
                      SuperMatrix B, X; S *b, *x; int nrhs, ld, ldx; R *ferr, *berr; R rcond; int info2; mem_usage_t mu; bool ilu; };
    static void body_pipe_factor(World *w, void *p) {
        PipeArgs *a = (PipeArgs *)p; Slot<K> &s = *a->s;
        if (a->o->colperm != MY_PERMC && a->opt.Fact == DOFACT) get_perm_c(a->o->colperm, &s.A, s.perm_c);
        sp_preorder(&a->opt, &s.A, s.perm_c, s.etree, &a->AC); a->haveAC = true;
        int panel = sp_ienv(1), relax = sp_ienv(2);
        if (a->ilu) K::gsitrf(&a->opt, &a->AC, relax, panel, s.etree, a->work, a->lwork, s.perm_c, s.perm_r, &s.L, &s.U, &s.Glu, &a->stat, &a->info);
        else K::gstrf(&a->opt, &a->AC, relax, panel, s.etree, a->work, a->lwork, s.perm_c, s.perm_r, &s.L, &s.U, &s.Glu, &a->stat, &a->info);
    }
    static void body_pipe_solve(World *w, void *p) {
        PipeArgs *a = (PipeArgs *)p; Slot<K> &s = *a->s;
        K::gstrs((trans_t)a->o->trans, &s.L, &s.U, s.perm_c, s.perm_r, &a->X, &a->stat, &a->info2);
        if (a->o->stages & 2) { char eq[2] = {'N', 0}; K::gsrfs((trans_t)a->o->trans, &s.A, &s.L, &s.U, s.perm_c, s.perm_r, eq, s.Rs, s.Cs, &a->B, &a->X, a->ferr, a->berr, &a->stat, &a->info2); }
        if (a->o->stages & 4) { char norm[2] = {a->o->trans == NOTRANS ? '1' : 'I', 0}; R anorm = K::langs(norm, &s.A); K::gscon(norm, &s.L, &s.U, anorm, &a->rcond, &a->stat, &a->info2); }
        if (a->o->stages & 8) K::QuerySpace(&s.L, &s.U, &a->mu);
    }
    // Size query through the factor routine itself. The caller may still hold live factors in the L, U, Glu it passes (or whatever
    // an earlier call left in those variables): the query reports an estimate and touches none of them, nor perm_r.
    void op_pipe_query(Op &o, OpResult &r, bool ilu) {
        Slot<K> &s = slots[o.slot]; int m = s.m, n = s.n;
        int fact = (o.fact == SamePattern && s.have_pattern && s.last_cls != XC_NOSPACE) ? SamePattern : DOFACT;
        if (fact != DOFACT) o.symmode = s.pat_symmode;
        PipeArgs a; memset(&a.AC, 0, sizeof a.AC); a.haveAC = false; a.s = &s; a.o = &o; a.ilu = ilu; set_options(o, a.opt, ilu); a.opt.Fact = (fact_t)fact;
        // get_perm_c / sp_preorder are ordinary calls whose outputs the caller keeps apart from the ones its live factors belong to
        std::vector<int> savePc(s.perm_c, s.perm_c + n), saveEt(s.etree, s.etree + n), savePr(s.perm_r, s.perm_r + m);
        if (o.colperm == MY_PERMC && fact == DOFACT) make_permc(o.permc_seed, n, s.perm_c);
        if (!s.haveLU) { memset(&s.L, 0x5B, sizeof s.L); memset(&s.U, 0x5B, sizeof s.U); } // junk in output-only variables
        Snapshot pre, post; pre.add("L.header", &s.L, sizeof s.L); pre.add("U.header", &s.U, sizeof s.U); pre.add("perm_r", s.perm_r, m * sizeof(int)); if (s.haveLU) snap_lu(s, pre);
        a.work = nullptr; a.lwork = -1; a.info = -777; a.info2 = -777; r.lwork_used = -1;
        StatInit(&a.stat);
        uint64_t steps0 = ctx->steps;
        rt_op_begin(ctx, (int)trace.size() - 1, o.faults);
        int esc = guarded(body_pipe_factor, &a);
        rt_op_end(ctx);
        r.steps = ctx->steps - steps0; r.escaped = esc;
        if (esc) { r.cls = esc == ESC_ABORT ? XC_ABORT : XC_HANG; dead = true; viol(r, esc == ESC_ABORT ? "abort" : "hang", ctx->abort_msg); return; }
        r.info = (long)a.info; r.cls = classify(r.info, n, true, false); r.query_estimate = r.info - n;
        post.add("L.header", &s.L, sizeof s.L); post.add("U.header", &s.U, sizeof s.U); post.add("perm_r", s.perm_r, m * sizeof(int));
        { const std::vector<unsigned char> *l0 = pre.get("L.header"), *u0 = pre.get("U.header"); std::string d;
          if (!l0 || !u0 || memcmp(l0->data(), &s.L, sizeof s.L) != 0 || memcmp(u0->data(), &s.U, sizeof s.U) != 0) d = "L/U header";
          else { if (s.haveLU) snap_lu(s, post); d = snap_diff(pre, post); }
          if (!d.empty() && cfg.chk_query_pure) viol(r, "query-mutates", d); }
        if (!s.ws.intact()) viol(r, "canary", "bytes outside [work, work+lwork) were written");
        if (!s.haveLU) { memset(&s.L, 0, sizeof s.L); memset(&s.U, 0, sizeof s.U); }
        memcpy(s.perm_c, savePc.data(), n * sizeof(int)); memcpy(s.etree, saveEt.data(), n * sizeof(int)); memcpy(s.perm_r, savePr.data(), m * sizeof(int));
        if (cfg.capture) { r.snap.val("info", r.info); r.snap.val("cls", r.cls); }
        if (a.haveAC) Destroy_CompCol_Permuted(&a.AC);
        StatFree(&a.stat);
    }
    void op_pipe(const Op &o0, OpResult &r, bool ilu) {
        Op o = o0; Slot<K> &s = slots[o.slot];
        if (!s.haveA || s.storage != 0) { r.skipped = true; r.skip_reason = "needs a column-stored matrix"; return; }
        int m = s.m, n = s.n; bool query = (o.lwork == -1);
        if (m != n && (o.colperm == MMD_AT_PLUS_A || o.symmode)) { o.colperm = COLAMD; o.symmode = 0; }
        if (ilu && m != n) { r.skipped = true; r.skip_reason = "ILU needs square"; return; }
        if (query) { op_pipe_query(o, r, ilu); return; }
        // re-factoring through the computational routines, as the expert driver does it internally: Fact = SamePattern keeps perm_c and
        // the etree (no get_perm_c), SamePattern_SameRowPerm also hands L, U, Glu and perm_r back to the factor routine
        int fact = (o.fact == SamePattern || o.fact == SamePattern_SameRowPerm) ? o.fact : DOFACT;
        if (fact == SamePattern && !(s.have_pattern && s.last_cls != XC_NOSPACE)) { r.skipped = true; r.skip_reason = "SamePattern without a remembered ordering"; return; }
        if (fact == SamePattern_SameRowPerm && (query || s.lu_mc64 || !(s.lu_valid && s.lu_ilu == ilu && s.have_pattern && s.glu_valid))) { r.skipped = true; r.skip_reason = "SameRowPerm without valid factors of the same kind"; return; }
        if (fact != DOFACT) o.symmode = s.pat_symmode;
        bool readopt = (fact == SamePattern_SameRowPerm);
        if (!readopt) destroy_lu(s);
        adopt_values(s, o);
        write_values(s, s.orig.re, s.orig.im); s.equed[0] = 'N';
        if (readopt) { o.lwork = s.lu_lwork; o.align = s.ws.align; }
        else if (o.lwork > 0) s.ws.alloc(o.lwork, o.align, o.wsgarbage, wsrng); else s.ws.release();
        std::vector<int> prev_permr; if (readopt) prev_permr.assign(s.perm_r, s.perm_r + m);
        PipeArgs a; memset(&a.AC, 0, sizeof a.AC); a.haveAC = false; a.s = &s; a.o = &o; a.ilu = ilu; set_options(o, a.opt, ilu); a.opt.Fact = (fact_t)fact;
        if (fact == DOFACT) s.pat_symmode = o.symmode;
        if (!readopt) { junk_perm(s.perm_r, m, o.rhs_seed); junk_lu_objects(s); }
        if (fact == DOFACT) { if (o.colperm != MY_PERMC) junk_perm(s.perm_c, n, o.rhs_seed ^ 1); junk_perm(s.etree, n, o.rhs_seed ^ 2); }
        if (o.colperm == MY_PERMC && fact == DOFACT) make_permc(o.permc_seed, n, s.perm_c);
        a.work = (o.lwork > 0) ? (void *)s.ws.work : nullptr; a.lwork = (int_t)o.lwork; a.info = -777; a.info2 = -777; r.lwork_used = o.lwork;
        StatInit(&a.stat);
        uint64_t steps0 = ctx->steps;
        rt_op_begin(ctx, (int)trace.size() - 1, o.faults);
        int esc = guarded(body_pipe_factor, &a);
        r.growth_reqs = ctx->growth_count; r.growth_log = ctx->growth_log;
        for (auto &g : r.growth_log) if (g.failed) r.growth_failed++;
        r.escaped = esc;
        if (esc) { rt_op_end(ctx); r.steps = ctx->steps - steps0; r.cls = esc == ESC_ABORT ? XC_ABORT : XC_HANG; dead = true; viol(r, esc == ESC_ABORT ? "abort" : "hang", ctx->abort_msg); return; }
        r.info = (long)a.info; r.cls = classify(r.info, n, query, false);
        if (!s.ws.intact()) viol(r, "canary", "bytes outside [work, work+lwork) were written");
        if (r.cls == XC_ARGERR) viol(r, "argerror", "valid call rejected with info " + std::to_string(r.info));
        if (query) r.query_estimate = r.info - n;
        bool have = (r.cls == XC_OK || r.cls == XC_SINGULAR);
        s.last_cls = r.cls; s.last_thresh = o.thresh;
        s.lu_mc64 = false;
        if (have) { s.glu_valid = true; s.haveLU = true; s.lu_lwork = o.lwork; s.lu_ilu = ilu; s.lu_valid = (r.cls == XC_OK) || ilu; s.have_pattern = true; r.expansions = a.stat.expansions; s.lu_nostruct = (ilu && readopt); }
        else if (r.cls == XC_NOSPACE) drop_lu_after_nospace(s, readopt);
        if (readopt && have) r.permr_changed = memcmp(prev_permr.data(), s.perm_r, m * sizeof(int)) != 0;
        if (ilu && r.cls == XC_SINGULAR) r.cls = XC_OK;
        if (ilu && have) { bool hole = false; for (int i = 0; i < m; i++) if (s.perm_r[i] < 0 || s.perm_r[i] >= m) hole = true;
            if (hole) { r.cls = XC_BREAKDOWN; s.lu_valid = false; s.last_cls = XC_BREAKDOWN; have = false; } }
        Snapshot &sn = r.snap; std::string serr;
        if (cfg.capture) { sn.val("info", r.cls == XC_NOSPACE ? (long)-1 : r.info); sn.val("cls", r.cls); }
        if (have) {
            if (s.lu_lwork > 0) { serr = check_lu_inside_workspace(s); if (!serr.empty()) viol(r, "workspace", serr); }
            if (serr.empty() && cfg.chk_structure && !s.lu_nostruct) {
                bool weak = (r.cls == XC_SINGULAR && !ilu);
                serr = check_structure<K>(&s.L, &s.U, m, n, weak ? nullptr : s.perm_r, weak ? nullptr : s.perm_c, ilu, caps_of(s), weak);
                if (!serr.empty() && !weak) viol(r, "structure:" + serr.substr(0, serr.find(' ')), serr);
                else if (s.lu_lwork > 0) { serr = check_lu_arrays_inside_workspace(s); if (!serr.empty()) viol(r, "workspace", serr); }
                if (serr.empty() && s.lu_lwork > 0 && r.cls == XC_OK && m == n) { std::string e = check_stack(s); if (!e.empty()) viol(r, "stack-accounting", e); }
            }
            if (serr.empty() && cfg.capture && r.cls == XC_OK) { sn.add("perm_c", s.perm_c, n * sizeof(int)); sn.add("etree", s.etree, n * sizeof(int)); sn.add("perm_r", s.perm_r, m * sizeof(int)); snap_lu(s, sn); snap_A(s, sn, "post"); sn.val("stat.expansions", a.stat.expansions); }
            if (serr.empty() && !ilu && r.cls == XC_OK && cfg.chk_identity && std::max(m, n) <= cfg.dense_limit) {
                std::vector<cx> Ad; int am, an; dense_A<K>(&s.A, Ad, am, an);
                std::vector<cx> Ld0, Ud0; dense_LU<K>(&s.L, &s.U, m, n, Ld0, Ud0);
                if (overflow_plausible<K>(Ld0, Ud0, Ad)) r.overflow_skipped = true;
                else { IdentityStats st; std::string e = check_identity<K>(Ad, m, n, &s.L, &s.U, s.perm_r, s.perm_c, o.thresh, true, &st);
                r.ident_ratio = st.max_ratio; if (!e.empty()) viol(r, "identity", e); }
            }
        }
        // solve stages (square, successful, stage bit 0)
        if (serr.empty() && r.cls == XC_OK && m == n && (o.stages & 1) && o.nrhs > 0 && (!ilu)) {
            memset(&a.B, 0, sizeof a.B); memset(&a.X, 0, sizeof a.X);
            a.nrhs = o.nrhs; a.ld = n + o.ldpad; a.b = cmalloc<S>((size_t)a.ld * a.nrhs); a.x = cmalloc<S>((size_t)a.ld * a.nrhs);
            make_rhs(o, n, a.nrhs, a.ld, a.b); memcpy(a.x, a.b, sizeof(S) * (size_t)a.ld * a.nrhs);
            K::Create_Dense_Matrix(&a.B, n, a.nrhs, a.b, a.ld, SLU_DN, K::dtype, SLU_GE); K::Create_Dense_Matrix(&a.X, n, a.nrhs, a.x, a.ld, SLU_DN, K::dtype, SLU_GE);
            a.ferr = cmalloc<R>(a.nrhs); a.berr = cmalloc<R>(a.nrhs); a.rcond = (R)-7; a.mu.for_lu = -7;
            int esc2 = guarded(body_pipe_solve, &a);
            if (esc2) { rt_op_end(ctx); r.steps = ctx->steps - steps0; r.escaped = esc2; r.cls = esc2 == ESC_ABORT ? XC_ABORT : XC_HANG; dead = true; viol(r, esc2 == ESC_ABORT ? "abort" : "hang", ctx->abort_msg); return; }
            if (cfg.capture) {
                std::vector<S> xs((size_t)n * a.nrhs); for (int j = 0; j < a.nrhs; j++) memcpy(&xs[(size_t)j * n], &a.x[(size_t)j * a.ld], n * sizeof(S));
                sn.add("X", xs.data(), xs.size() * sizeof(S));
                if (o.stages & 2) { sn.add("ferr", a.ferr, a.nrhs * sizeof(R)); sn.add("berr", a.berr, a.nrhs * sizeof(R)); }
                if (o.stages & 4) sn.val("rcond", a.rcond);
                if (o.stages & 8) sn.val("mu.for_lu", a.mu.for_lu);
            }
            if (!padding_intact(n, a.nrhs, a.ld, a.x)) viol(r, "padding", "rows of X beyond n were written");
            if (cfg.chk_residual && n <= cfg.dense_limit) {
                std::vector<cx> Ad; int am, an; dense_A<K>(&s.A, Ad, am, an);
                std::vector<cx> Ld, Ud; dense_LU<K>(&s.L, &s.U, n, n, Ld, Ud);
                std::vector<cx> Xh((size_t)n * a.nrhs), Bh((size_t)n * a.nrhs);
                for (int j = 0; j < a.nrhs; j++) for (int i = 0; i < n; i++) {
                    S xv = a.x[i + (size_t)j * a.ld], bv = a.b[i + (size_t)j * a.ld];
                    Xh[i + (size_t)j * n] = cx((ld)ScalarOps<S>::re(xv), (ld)ScalarOps<S>::im(xv)); Bh[i + (size_t)j * n] = cx((ld)ScalarOps<S>::re(bv), (ld)ScalarOps<S>::im(bv));
                }
                std::vector<double> be; if (o.stages & 2) for (int j = 0; j < a.nrhs; j++) be.push_back((double)a.berr[j]);
                long double mr = 0;
                if (overflow_plausible<K>(Ld, Ud, Ad) || overflow_plausible<K>(Xh, Bh, std::vector<cx>())) r.overflow_skipped = true;
                else { std::string e = check_residual<K>(Ad, n, Ld, Ud, s.perm_r, s.perm_c, o.trans, Xh, Bh, a.nrhs, be.empty() ? nullptr : be.data(), &mr);
                r.resid_ratio = mr; if (!e.empty()) viol(r, "residual", e); }
            }
            Destroy_SuperMatrix_Store(&a.B); Destroy_SuperMatrix_Store(&a.X); rt_caller_free(a.b); rt_caller_free(a.x); rt_caller_free(a.ferr); rt_caller_free(a.berr);
        }
        rt_op_end(ctx);
        r.steps = ctx->steps - steps0;
        if (cfg.capture && have) { sn.add("ops", a.stat.ops, NPHASES * sizeof(flops_t)); if (cfg.capture_clock) sn.add("utime", a.stat.utime, NPHASES * sizeof(double)); }
        if (a.haveAC) Destroy_CompCol_Permuted(&a.AC);
        StatFree(&a.stat);
    }

    // Equilibration routines alone
    void op_equil(const Op &o, OpResult &r) {
        Slot<K> &s = slots[o.slot];
        if (!s.haveA || s.storage != 0) { r.skipped = true; r.skip_reason = "needs a column-stored matrix"; return; }
        write_values(s, s.orig.re, s.orig.im);
        R rowcnd = 0, colcnd = 0, amax = 0; int info = -777; char eq[2] = {'N', 0};
        rt_op_begin(ctx, (int)trace.size() - 1, o.faults);
        uint64_t steps0 = ctx->steps;
        K::gsequ(&s.A, s.Rs, s.Cs, &rowcnd, &colcnd, &amax, &info);
        if (info == 0) K::laqgs(&s.A, s.Rs, s.Cs, rowcnd, colcnd, amax, eq);
        rt_op_end(ctx);
        r.steps = ctx->steps - steps0; r.info = info; r.cls = XC_OK;
        if (cfg.capture) { r.snap.val("info", (long)info); r.snap.val("equed", eq[0]); r.snap.val("rowcnd", rowcnd); r.snap.val("colcnd", colcnd); r.snap.val("amax", amax);
            if (info == 0) { r.snap.add("R", s.Rs, s.m * sizeof(R)); r.snap.add("C", s.Cs, s.n * sizeof(R)); } snap_A(s, r.snap, "post"); }
        write_values(s, s.orig.re, s.orig.im); // the caller keeps its own copy of the values
        s.equed[0] = 'N';
    }

    // ---- stand-alone utilities a caller combines with the drivers (conversion, copies, right-hand-side set-up, printing, MC64) ----
    // o.stages selects which ones run; every result is compared with what the harness computes itself.
    void op_util(const Op &o, OpResult &r) {
        Slot<K> &s = slots[o.slot];
        if (!s.haveA) { r.skipped = true; r.skip_reason = "no matrix"; return; }
        // the matrix is used as it stands (it may hold equilibrated values between an expert call and its re-solves)
        const Mat &M = s.orig; int m = s.m, n = s.n; long nnz = s.nnz;
        int sel = o.stages ? o.stages : 63;
        uint64_t steps0 = ctx->steps;
        rt_op_begin(ctx, (int)trace.size() - 1, o.faults);
        Hash64 h;
        auto same = [](S a, S b) { return memcmp(&a, &b, sizeof(S)) == 0; };
        if (sel & 1) { // row-compressed -> column-compressed conversion (allocates the three result arrays)
            std::vector<int> rp, ci; std::vector<double> re, im; csc_to_csr(M, rp, ci, re, im);
            S *a = cmalloc<S>(nnz); int_t *colind = cmalloc<int_t>(nnz); int_t *rowptr = cmalloc<int_t>(m + 1);
            for (long k = 0; k < nnz; k++) { a[k] = ScalarOps<S>::make(re[k], im[k]); colind[k] = ci[k]; }
            for (int i = 0; i <= m; i++) rowptr[i] = rp[i];
            S *at = nullptr; int_t *rowind = nullptr, *colptr = nullptr;
            K::CompRow_to_CompCol(m, n, (int_t)nnz, a, colind, rowptr, &at, &rowind, &colptr);
            bool ok = at && rowind && colptr;
            if (ok) { for (int j = 0; j <= n && ok; j++) if (colptr[j] != M.colptr[j]) ok = false;
                // the order of the entries inside a column is the converter's business
                for (int j = 0; j < n && ok; j++) for (int k = M.colptr[j]; k < M.colptr[j + 1] && ok; k++) {
                    bool found = false; S want = ScalarOps<S>::make(M.re[k], M.im[k]);
                    for (int q = M.colptr[j]; q < M.colptr[j + 1]; q++) if (rowind[q] == M.rowind[k] && same(at[q], want)) { found = true; break; }
                    if (!found) ok = false; } }
            if (!ok) viol(r, "util", "CompRow_to_CompCol does not return the matrix it was given");
            for (long k = 0; k < nnz; k++) if (colind[k] != ci[k] || !same(a[k], ScalarOps<S>::make(re[k], im[k]))) { viol(r, "util", "CompRow_to_CompCol changed its input"); break; }
            if (at) sim_free(at, __FILE__, __func__, __LINE__);
            if (rowind) sim_free(rowind, __FILE__, __func__, __LINE__);
            if (colptr) sim_free(colptr, __FILE__, __func__, __LINE__);
            rt_caller_free(a); rt_caller_free(colind); rt_caller_free(rowptr);
        }
        if ((sel & 2) && s.storage == 0) { // copy into a matrix of the same shape prepared by the caller
            S *bv = cmalloc<S>(nnz); int_t *bi = cmalloc<int_t>(nnz); int_t *bp = cmalloc<int_t>(n + 1);
            memset(bv, 0x5A, sizeof(S) * nnz); memset(bi, 0x5A, sizeof(int_t) * nnz); memset(bp, 0x5A, sizeof(int_t) * (n + 1));
            SuperMatrix Bm; K::Create_CompCol_Matrix(&Bm, m, n, (int_t)nnz, bv, bi, bp, SLU_NC, K::dtype, SLU_GE);
            K::Copy_CompCol_Matrix(&s.A, &Bm);
            NCformat *As = (NCformat *)s.A.Store, *Bs = (NCformat *)Bm.Store;
            bool ok = Bm.nrow == m && Bm.ncol == n && Bs->nnz == As->nnz && !memcmp(bv, As->nzval, sizeof(S) * nnz) && !memcmp(bi, As->rowind, sizeof(int_t) * nnz) && !memcmp(bp, As->colptr, sizeof(int_t) * (n + 1));
            if (!ok) viol(r, "util", "Copy_CompCol_Matrix: the copy differs from the original");
            Destroy_CompCol_Matrix(&Bm);
        }
        int nrhs = std::max(1, o.nrhs), mx = std::max(m, n);
        int ldx = mx + o.ldpad, ldb = mx + (o.ldpad ? 1 : 0);
        if (sel & 4) { // dense copy between different leading dimensions: the padding rows of the target stay untouched
            S *X = cmalloc<S>((size_t)ldx * nrhs), *Y = cmalloc<S>((size_t)ldb * nrhs);
            Rng g(o.rhs_seed ^ 0x44); for (long k = 0; k < (long)ldx * nrhs; k++) X[k] = ScalarOps<S>::make(g.sym(), g.sym());
            memset(Y, 0x3C, sizeof(S) * (size_t)ldb * nrhs);
            K::Copy_Dense_Matrix(n, nrhs, X, ldx, Y, ldb);
            bool ok = true; S pad; memset(&pad, 0x3C, sizeof pad);
            for (int j = 0; j < nrhs; j++) for (int i = 0; i < ldb; i++) { S want = i < n ? X[i + (size_t)j * ldx] : pad; if (!same(Y[i + (size_t)j * ldb], want)) ok = false; }
            if (!ok) viol(r, "util", "Copy_Dense_Matrix: wrong copy or padding rows written");
            rt_caller_free(X); rt_caller_free(Y);
        }
        if ((sel & 8) && s.storage == 0) { // right-hand side for a known solution, sparse matrix times dense block
            bool tr = o.trans != NOTRANS;
            int xr = tr ? m : n, br = tr ? n : m; // rows of x / of b
            S *xt = cmalloc<S>((size_t)ldx * nrhs), *bb = cmalloc<S>((size_t)ldb * nrhs);
            memset(xt, 0, sizeof(S) * (size_t)ldx * nrhs); memset(bb, 0x3C, sizeof(S) * (size_t)ldb * nrhs);
            if (m == n) K::GenXtrue(n, nrhs, xt, ldx);
            else { Rng g(o.rhs_seed ^ 0x88); for (int j = 0; j < nrhs; j++) for (int i = 0; i < xr; i++) xt[i + (size_t)j * ldx] = ScalarOps<S>::make(g.sym(), g.sym()); }
            SuperMatrix Bm; K::Create_Dense_Matrix(&Bm, br, nrhs, bb, ldb, SLU_DN, K::dtype, SLU_GE);
            if (m == n) K::FillRHS((trans_t)(tr ? TRANS : NOTRANS), nrhs, xt, ldx, &s.A, &Bm);
            else { char ta[2] = {tr ? 'T' : 'N', 0}, tb[2] = {'N', 0}; S one = ScalarOps<S>::make(1, 0), zero = ScalarOps<S>::make(0, 0);
                K::sp_gemm(ta, tb, br, nrhs, xr, one, &s.A, xt, ldx, zero, bb, ldb); }
            // reference product in long double
            double eps = sizeof(R) == 4 ? 1.2e-7 : 2.3e-16; bool ok = true; S pad; memset(&pad, 0x3C, sizeof pad);
            for (int j = 0; j < nrhs && ok; j++) {
                std::vector<ld> yr(br, 0), yi(br, 0), ya(br, 0);
                for (int c = 0; c < n; c++) for (int k = M.colptr[c]; k < M.colptr[c + 1]; k++) {
                    int rr = M.rowind[k]; S av = ((S *)((NCformat *)s.A.Store)->nzval)[k]; ld ar = ScalarOps<S>::re(av), ai = ScalarOps<S>::im(av);
                    int xi = tr ? rr : c, yi_ = tr ? c : rr; ld xr_ = ScalarOps<S>::re(xt[xi + (size_t)j * ldx]), xim = ScalarOps<S>::im(xt[xi + (size_t)j * ldx]);
                    yr[yi_] += ar * xr_ - ai * xim; yi[yi_] += ar * xim + ai * xr_; ya[yi_] += (fabsl(ar) + fabsl(ai)) * (fabsl(xr_) + fabsl(xim));
                }
                for (int i = 0; i < ldb; i++) { S got = bb[i + (size_t)j * ldb];
                    if (i >= br) { if (!same(got, pad)) ok = false; continue; }
                    ld dr = ScalarOps<S>::re(got) - yr[i], di = ScalarOps<S>::im(got) - yi[i];
                    if (!(fabsl(dr) + fabsl(di) <= 8 * (n + 2) * eps * ya[i] + 1e-300L)) ok = false; }
            }
            if (!ok) viol(r, "util", "FillRHS / sp_gemm: product differs from the reference or padding rows written");
            if (m == n) { SuperMatrix Xm; K::Create_Dense_Matrix(&Xm, n, nrhs, xt, ldx, SLU_DN, K::dtype, SLU_GE); K::inf_norm_error(nrhs, &Xm, xt); Destroy_SuperMatrix_Store(&Xm); }
            Destroy_SuperMatrix_Store(&Bm);
            rt_caller_free(xt); rt_caller_free(bb);
        }
        if (sel & 16) { // diagnostic printing walks every array of the objects it is given
            char nm[8] = "A";
            if (s.storage == 0) K::Print_CompCol_Matrix(nm, &s.A);
            if (s.haveLU && s.lu_valid) { char ln[8] = "L", un[8] = "U"; K::Print_SuperNode_Matrix(ln, &s.L); K::Print_CompCol_Matrix(un, &s.U); }
            S *d = cmalloc<S>((size_t)ldx * nrhs); memset(d, 0, sizeof(S) * (size_t)ldx * nrhs);
            SuperMatrix Dm; K::Create_Dense_Matrix(&Dm, n, nrhs, d, ldx, SLU_DN, K::dtype, SLU_GE); char dn[8] = "X"; K::Print_Dense_Matrix(dn, &Dm);
            Destroy_SuperMatrix_Store(&Dm); rt_caller_free(d);
            superlu_options_t opt; set_options(o, opt, false); print_options(&opt); set_options(o, opt, true); print_ilu_options(&opt);
            SuperLUStat_t st; StatInit(&st); StatPrint(&st); StatFree(&st);
        }
        if ((sel & 32) && s.storage == 0 && m == n) { // MC64 row permutation (all five jobs), arrays are the caller's and come back unchanged
            int job = 1 + (int)(o.rhs_seed % 5);
            NCformat *As = (NCformat *)s.A.Store;
            std::vector<int_t> cp0(As->colptr, As->colptr + n + 1), ri0(As->rowind, As->rowind + nnz); std::vector<S> nz0((S *)As->nzval, (S *)As->nzval + nnz);
            int *perm = cmalloc<int>(n); R *u = cmalloc<R>(n), *v = cmalloc<R>(n);
            for (int i = 0; i < n; i++) { perm[i] = -7; u[i] = v[i] = 0; }
            int rc = K::ldperm(job, n, (int_t)nnz, As->colptr, As->rowind, (S *)As->nzval, perm, u, v);
            // rc < 0: request refused (job 1 needs MC21, which is not part of the library); rc = 1: no full matching among the non-zero entries
            if (memcmp(cp0.data(), As->colptr, sizeof(int_t) * (n + 1)) || memcmp(ri0.data(), As->rowind, sizeof(int_t) * nnz)) viol(r, "util", "ldperm: index arrays not restored");
            if (memcmp(nz0.data(), As->nzval, sizeof(S) * nnz)) viol(r, "util", "ldperm: values changed");
            std::vector<char> seen(n, 0); bool isperm = true;
            for (int i = 0; i < n; i++) { if (perm[i] < 0 || perm[i] >= n || seen[perm[i]]) { isperm = false; break; } seen[perm[i]] = 1; }
            if (rc == 0 && !isperm) viol(r, "util", "ldperm: result is not a permutation");
            h.bytes(perm, sizeof(int) * n);
            rt_caller_free(perm); rt_caller_free(u); rt_caller_free(v);
        }
        if ((sel & 64) && s.storage == 0) { // sparse matrix-vector product called directly: general alpha / beta, strided and reversed vectors
            Rng g(o.rhs_seed ^ 0x6464);
            static const char tc[3] = {'N', 'T', 'C'}; char tr[2] = {tc[g.below(3)], 0}; bool notran = tr[0] == 'N', conj = tr[0] == 'C' && K::cplx;
            static const int incs[6] = {1, 2, 3, -1, -2, 1};
            int incx = notran ? incs[g.below(6)] : 1, incy = notran ? 1 : incs[g.below(6)]; // the other combinations are documented as not implemented
            int lenx = notran ? n : m, leny = notran ? m : n; int ax = std::abs(incx), ay = std::abs(incy);
            auto coef = [&](int w) { return w == 0 ? ScalarOps<S>::make(0, 0) : w == 1 ? ScalarOps<S>::make(1, 0) : w == 2 ? ScalarOps<S>::make(-1, 0) : ScalarOps<S>::make(g.sym(), K::cplx ? g.sym() : 0); };
            S alpha = coef((int)g.below(5)), beta = coef((int)g.below(5));
            size_t nx = (size_t)(lenx - 1) * ax + 1, ny = (size_t)(leny - 1) * ay + 1;
            S *x = cmalloc<S>(nx), *y = cmalloc<S>(ny);
            for (size_t k = 0; k < nx; k++) x[k] = ScalarOps<S>::make(g.sym(), K::cplx ? g.sym() : 0);
            for (size_t k = 0; k < ny; k++) y[k] = ScalarOps<S>::make(g.sym(), K::cplx ? g.sym() : 0);
            std::vector<S> x0(x, x + nx), y0(y, y + ny);
            K::sp_gemv(tr, alpha, &s.A, x, incx, beta, y, incy);
            auto at = [](int i, int inc, int len) { return inc > 0 ? (size_t)i * inc : (size_t)(len - 1 - i) * (size_t)(-inc); };
            cx al((ld)ScalarOps<S>::re(alpha), (ld)ScalarOps<S>::im(alpha)), be((ld)ScalarOps<S>::re(beta), (ld)ScalarOps<S>::im(beta));
            std::vector<cx> acc(leny, cx(0)); std::vector<ld> mag(leny, 0);
            const S *av = (const S *)((NCformat *)s.A.Store)->nzval; const int_t *ai = ((NCformat *)s.A.Store)->rowind, *ap = ((NCformat *)s.A.Store)->colptr;
            for (int c = 0; c < n; c++) for (long k = ap[c]; k < ap[c + 1]; k++) {
                int rr = (int)ai[k]; cx a((ld)ScalarOps<S>::re(av[k]), (ld)ScalarOps<S>::im(av[k])); if (conj) a = std::conj(a);
                int xi = notran ? c : rr, yi = notran ? rr : c; S xv = x0[at(xi, incx, lenx)]; cx xc((ld)ScalarOps<S>::re(xv), (ld)ScalarOps<S>::im(xv));
                acc[yi] += a * xc; mag[yi] += std::abs(a) * std::abs(xc);
            }
            double eps = sizeof(R) == 4 ? 1.2e-7 : 2.3e-16; bool ok = true;
            if (memcmp(x, x0.data(), sizeof(S) * nx)) ok = false; // x is input only
            for (size_t k = 0; k < ny && ok; k++) { // positions between the strided elements stay untouched
                bool used = (k % ay) == 0; if (!used && !same(y[k], y0[k])) ok = false; }
            for (int i = 0; i < leny && ok; i++) { size_t p = at(i, incy, leny); cx yo((ld)ScalarOps<S>::re(y0[p]), (ld)ScalarOps<S>::im(y0[p])), got((ld)ScalarOps<S>::re(y[p]), (ld)ScalarOps<S>::im(y[p]));
                cx want = al * acc[i] + be * yo; ld bound = 8 * (std::max(m, n) + 4) * (ld)eps * (std::abs(al) * mag[i] + std::abs(be) * std::abs(yo)) + 1e-300L;
                if (!(std::abs(got - want) <= bound)) ok = false; }
            if (!ok) viol(r, "util", std::string("sp_gemv(") + tr + ", incx=" + std::to_string(incx) + ", incy=" + std::to_string(incy) + "): result differs from the reference product, or x / the gaps of y were written");
            h.bytes(y, sizeof(S) * ny);
            rt_caller_free(x); rt_caller_free(y);
        }
        if ((sel & 128) && s.haveLU && s.lu_valid && !s.lu_ilu && !s.lu_nostruct && m == n && n <= cfg.dense_limit && s.last_cls == XC_OK) {
            // triangular solves with the factors called directly, every combination the routine documents
            Rng g(o.rhs_seed ^ 0x8080);
            std::vector<cx> Ld, Ud; dense_LU<K>(&s.L, &s.U, n, n, Ld, Ud);
            bool ovf = overflow_plausible<K>(Ld, Ud, std::vector<cx>());
            static const char *const combos[6][3] = {{"L", "N", "U"}, {"U", "N", "N"}, {"L", "T", "U"}, {"U", "T", "N"}, {"L", "C", "U"}, {"U", "C", "N"}};
            SuperLUStat_t st; StatInit(&st);
            for (int q = 0; q < 6; q++) {
                if (!((o.rhs_seed >> (30 + q)) & 1) && q != (int)(o.rhs_seed % 6)) continue;
                bool lower = combos[q][0][0] == 'L'; char tch = combos[q][1][0]; bool tr = tch != 'N', cj = tch == 'C' && K::cplx;
                S *x = cmalloc<S>(n); for (int i = 0; i < n; i++) x[i] = ScalarOps<S>::make(g.sym(), K::cplx ? g.sym() : 0);
                std::vector<S> b0(x, x + n); int info = -777;
                char a0[2] = {combos[q][0][0], 0}, a1[2] = {tch, 0}, a2[2] = {combos[q][2][0], 0};
                K::sp_trsv(a0, a1, a2, &s.L, &s.U, x, &st, &info);
                if (info != 0) { viol(r, "util", std::string("sp_trsv(") + a0 + a1 + a2 + ") rejected valid arguments"); rt_caller_free(x); continue; }
                bool fin = true; for (int i = 0; i < n; i++) if (!std::isfinite((double)ScalarOps<S>::re(x[i])) || !std::isfinite((double)ScalarOps<S>::im(x[i]))) fin = false;
                if (fin && !ovf) {
                    const std::vector<cx> &T = lower ? Ld : Ud; double eps = sizeof(R) == 4 ? 1.2e-7 : 2.3e-16; bool ok = true;
                    for (int i = 0; i < n && ok; i++) { cx sum(0); ld mg = 0;
                        for (int j = 0; j < n; j++) { cx t = tr ? T[(size_t)j + (size_t)i * n] : T[(size_t)i + (size_t)j * n]; if (t == cx(0)) continue; if (cj) t = std::conj(t);
                            cx xc((ld)ScalarOps<S>::re(x[j]), (ld)ScalarOps<S>::im(x[j])); sum += t * xc; mg += std::abs(t) * std::abs(xc); }
                        cx bc((ld)ScalarOps<S>::re(b0[i]), (ld)ScalarOps<S>::im(b0[i]));
                        if (!(std::abs(sum - bc) <= (K::cplx ? 32 : 8) * (n + 4) * (ld)eps * (mg + std::abs(bc)) + 1e-300L)) ok = false; }
                    if (!ok) viol(r, "util", std::string("sp_trsv(") + a0 + a1 + a2 + "): the returned vector does not solve the triangular system");
                }
                h.bytes(x, sizeof(S) * n);
                rt_caller_free(x);
            }
            StatFree(&st);
        }
        rt_op_end(ctx);
        r.steps = ctx->steps - steps0; r.cls = XC_OK;
        if (cfg.capture) { r.snap.val("util", (long)sel); r.snap.val("perm", (long)h.h); snap_A(s, r.snap, "post"); }
    }

    // ---- Fortran-callable bridge ----
    struct BridgeArgs { int iopt, n, nrhs, ldb; int_t nnz; S *values; int_t *rowind, *colptr; S *b; fptr *f; int_t info; };
    static void body_bridge(World *w, void *p) { BridgeArgs *a = (BridgeArgs *)p; K::bridge(&a->iopt, &a->n, &a->nnz, &a->nrhs, a->values, a->rowind, a->colptr, a->b, &a->ldb, a->f, &a->info); }
    void op_bridge(const Op &o, OpResult &r) {
        if (o.handle < 0 || o.handle >= (int)handles.size()) { r.skipped = true; r.skip_reason = "bad handle"; return; }
        BridgeHandle &h = handles[o.handle];
        BridgeArgs a; memset(&a, 0, sizeof a); a.f = &h.f; a.info = -777;
        uint64_t steps0 = ctx->steps;
        if (o.kind == "bfactor") {
            if (h.live) { r.skipped = true; r.skip_reason = "handle already live"; return; }
            if (o.mat < 0 || o.mat >= (int)plan->mats.size() || plan->mats[o.mat].m != plan->mats[o.mat].n) { r.skipped = true; r.skip_reason = "no square matrix"; return; }
            const Mat &M = plan->mats[o.mat];
            h.n = M.n; h.slotmat = o.mat; h.rowind1.resize(M.nnz()); h.colptr1.resize(M.n + 1);
            for (int k = 0; k < M.nnz(); k++) h.rowind1[k] = M.rowind[k] + 1;
            for (int j = 0; j <= M.n; j++) h.colptr1[j] = M.colptr[j] + 1;
            S *vals = (S *)malloc(sizeof(S) * std::max(1, M.nnz()));
            for (int k = 0; k < M.nnz(); k++) vals[k] = ScalarOps<S>::make(M.re[k], M.im[k]);
            h.values = vals;
            std::vector<S> v0(vals, vals + M.nnz()); std::vector<int_t> r0 = h.rowind1, c0 = h.colptr1;
            // The caller's arrays are handed over READ-ONLY for the duration of the factor request (a Fortran caller may pass
            // constants, or other threads may be reading the same arrays): any write - even one that is undone before return - faults.
            size_t pg = 4096, lv = (sizeof(S) * std::max(1, M.nnz()) + pg - 1) / pg * pg, lr = (sizeof(int_t) * std::max(1, M.nnz()) + pg - 1) / pg * pg, lc = (sizeof(int_t) * (M.n + 1) + pg - 1) / pg * pg;
            char *ro = (char *)mmap(nullptr, lv + lr + lc, PROT_READ | PROT_WRITE, MAP_PRIVATE | MAP_ANONYMOUS, -1, 0);
            bool use_ro = (ro != MAP_FAILED);
            S *ro_v = vals; int_t *ro_r = h.rowind1.data(), *ro_c = h.colptr1.data();
            if (use_ro) {
                ro_v = (S *)ro; ro_r = (int_t *)(ro + lv); ro_c = (int_t *)(ro + lv + lr);
                memcpy(ro_v, vals, sizeof(S) * M.nnz()); memcpy(ro_r, h.rowind1.data(), sizeof(int_t) * M.nnz()); memcpy(ro_c, h.colptr1.data(), sizeof(int_t) * (M.n + 1));
                mprotect(ro, lv + lr + lc, PROT_READ);
            }
            a.iopt = 1; a.n = M.n; a.nnz = M.nnz(); a.nrhs = 0; a.values = ro_v; a.rowind = ro_r; a.colptr = ro_c; a.b = nullptr; a.ldb = M.n;
            // the handle argument is an output of a factor request: the caller's variable may still hold anything - zero, the (saved)
            // handle of another live factorization as in FORTRAN/test_omp.F, or junk
            h.f = 0;
            { int mode = (int)(o.rhs_seed % 5);
              if (mode == 2 || mode == 3) { std::vector<fptr> others; for (size_t q = 0; q < handles.size(); q++) if ((int)q != o.handle && handles[q].live && handles[q].f) others.push_back(handles[q].f);
                  if (!others.empty()) h.f = others[(size_t)((o.rhs_seed >> 8) % others.size())]; }
              else if (mode == 4) h.f = (fptr)0x5A5A5A5A5A5A0001LL; }
            rt_op_begin(ctx, (int)trace.size() - 1, o.faults);
            int esc = guarded(body_bridge, &a);
            rt_op_end(ctx);
            r.steps = ctx->steps - steps0; r.escaped = esc;
            if (esc) { r.cls = esc == ESC_ABORT ? XC_ABORT : XC_HANG; dead = true; viol(r, esc == ESC_ABORT ? "abort" : "hang", ctx->abort_msg); return; }
            r.info = (long)a.info; r.cls = classify(r.info, M.n, false, false);
            h.live = true; h.valid = (r.info == 0); // a Fortran caller checks info before it solves with the handle
            if (use_ro) {
                if (!esc && (memcmp(v0.data(), ro_v, sizeof(S) * M.nnz()) != 0 || memcmp(r0.data(), ro_r, sizeof(int_t) * M.nnz()) != 0 || memcmp(c0.data(), ro_c, sizeof(int_t) * (M.n + 1)) != 0))
                    viol(r, "bridge-mutates", "factor request changed the caller's 1-based matrix arrays");
                munmap(ro, lv + lr + lc);
            }
            if (memcmp(v0.data(), vals, sizeof(S) * M.nnz()) != 0 || r0 != h.rowind1 || c0 != h.colptr1) viol(r, "bridge-mutates", "factor request changed the caller's 1-based matrix arrays");
            if (h.f == 0) viol(r, "bridge-handle", "factor request returned a null handle");
            if (cfg.capture) { r.snap.val("info", r.info); }
            if (r.info != 0 && cfg.bridge_model) viol(r, "bridge-factor-info", "factor request returned info " + std::to_string(r.info) + " for a nonsingular matrix");
            if (cfg.bridge_model && r.info == 0) {
                // reference model: the C simple driver on the same matrix (0-based copy, default options, same tunings)
                S *mv = cmalloc<S>(M.nnz()); int_t *mi = cmalloc<int_t>(M.nnz()); int_t *mp = cmalloc<int_t>(M.n + 1);
                for (int k = 0; k < M.nnz(); k++) { mv[k] = ScalarOps<S>::make(M.re[k], M.im[k]); mi[k] = M.rowind[k]; }
                for (int j = 0; j <= M.n; j++) mp[j] = M.colptr[j];
                K::Create_CompCol_Matrix(&h.mA, M.n, M.n, (int_t)M.nnz(), mv, mi, mp, SLU_NC, K::dtype, SLU_GE);
                h.mpc = cmalloc<int>(M.n); h.mpr = cmalloc<int>(M.n);
                superlu_options_t opt; set_default_options(&opt); opt.PrintStat = NO;
                SuperMatrix B0; S *b0 = cmalloc<S>(M.n); K::Create_Dense_Matrix(&B0, M.n, 0, b0, M.n, SLU_DN, K::dtype, SLU_GE);
                SuperLUStat_t st; StatInit(&st); int_t minfo = -1;
                K::gssv(&opt, &h.mA, h.mpc, h.mpr, &h.mL, &h.mU, &B0, &st, &minfo);
                StatFree(&st); Destroy_SuperMatrix_Store(&B0); rt_caller_free(b0);
                if (minfo == 0) h.model = true;
                else { if (minfo > 0 && minfo <= M.n) { Destroy_SuperNode_Matrix(&h.mL); Destroy_CompCol_Matrix(&h.mU); } Destroy_CompCol_Matrix(&h.mA); rt_caller_free(h.mpc); rt_caller_free(h.mpr); h.mpc = h.mpr = nullptr; }
            }
        } else if (o.kind == "bsolve") {
            if (!h.live || !h.valid) { r.skipped = true; r.skip_reason = "handle not live or factorization reported info != 0"; return; }
            int n = h.n; a.iopt = 2; a.n = n; a.nnz = 0; a.nrhs = o.nrhs; a.ldb = n + o.ldpad;
            S *b = (S *)malloc(sizeof(S) * (size_t)a.ldb * std::max(1, a.nrhs)); make_rhs(o, n, a.nrhs, a.ldb, b); a.b = b;
            std::vector<S> b_in(b, b + (size_t)a.ldb * std::max(1, a.nrhs));
            rt_op_begin(ctx, (int)trace.size() - 1, o.faults);
            int esc = guarded(body_bridge, &a);
            rt_op_end(ctx);
            r.steps = ctx->steps - steps0; r.escaped = esc;
            if (esc) { free(b); r.cls = esc == ESC_ABORT ? XC_ABORT : XC_HANG; dead = true; viol(r, esc == ESC_ABORT ? "abort" : "hang", ctx->abort_msg); return; }
            r.info = (long)a.info; r.cls = r.info == 0 ? XC_OK : XC_ARGERR;
            if (r.info != 0) viol(r, "bridge-solve-info", "solve request returned info " + std::to_string(r.info));
            if (!padding_intact(n, a.nrhs, a.ldb, b)) viol(r, "padding", "rows of b beyond n were written");
            if (cfg.capture) { std::vector<S> xs((size_t)n * a.nrhs); for (int j = 0; j < a.nrhs; j++) memcpy(&xs[(size_t)j * n], &b[(size_t)j * a.ldb], n * sizeof(S)); r.snap.val("info", r.info); r.snap.add("X", xs.data(), xs.size() * sizeof(S)); }
            if (h.model && a.nrhs > 0) {
                // what the C simple driver would return for the same right-hand sides
                S *xm = cmalloc<S>((size_t)a.ldb * a.nrhs); memcpy(xm, b_in.data(), sizeof(S) * (size_t)a.ldb * a.nrhs);
                SuperMatrix Bm; K::Create_Dense_Matrix(&Bm, n, a.nrhs, xm, a.ldb, SLU_DN, K::dtype, SLU_GE);
                SuperLUStat_t st; StatInit(&st); int minfo = -1;
                K::gstrs(NOTRANS, &h.mL, &h.mU, h.mpc, h.mpr, &Bm, &st, &minfo);
                StatFree(&st);
                r.bridge_bit_equal = memcmp(xm, b, sizeof(S) * (size_t)a.ldb * a.nrhs) == 0 ? 1 : 0;
                std::vector<cx> Ad; int am, an; dense_A<K>(&h.mA, Ad, am, an);
                std::vector<cx> Ld, Ud; dense_LU<K>(&h.mL, &h.mU, n, n, Ld, Ud);
                std::vector<cx> Xh((size_t)n * a.nrhs), Bh((size_t)n * a.nrhs);
                for (int j = 0; j < a.nrhs; j++) for (int i = 0; i < n; i++) {
                    S xv = b[i + (size_t)j * a.ldb], bv = b_in[i + (size_t)j * a.ldb];
                    Xh[i + (size_t)j * n] = cx((ld)ScalarOps<S>::re(xv), (ld)ScalarOps<S>::im(xv)); Bh[i + (size_t)j * n] = cx((ld)ScalarOps<S>::re(bv), (ld)ScalarOps<S>::im(bv));
                }
                if (overflow_plausible<K>(Ld, Ud, Ad) || overflow_plausible<K>(Xh, Bh, std::vector<cx>())) r.overflow_skipped = true;
                else { long double mr = 0; std::string e = check_residual<K>(Ad, n, Ld, Ud, h.mpr, h.mpc, 0, Xh, Bh, a.nrhs, nullptr, &mr); r.resid_ratio = mr; if (!e.empty()) viol(r, "bridge-residual", e); }
                Destroy_SuperMatrix_Store(&Bm); rt_caller_free(xm);
            }
            free(b);
        } else { // bfree
            if (!h.live) { r.skipped = true; r.skip_reason = "handle not live"; return; }
            a.iopt = 3; a.n = h.n;
            rt_op_begin(ctx, (int)trace.size() - 1, o.faults);
            int esc = guarded(body_bridge, &a);
            rt_op_end(ctx);
            r.steps = ctx->steps - steps0; r.escaped = esc;
            if (esc) { r.cls = esc == ESC_ABORT ? XC_ABORT : XC_HANG; dead = true; viol(r, esc == ESC_ABORT ? "abort" : "hang", ctx->abort_msg); return; }
            free(h.values); h.values = nullptr; h.live = false; h.f = 0; r.cls = XC_OK;
            if (h.model) { Destroy_SuperNode_Matrix(&h.mL); Destroy_CompCol_Matrix(&h.mU); Destroy_CompCol_Matrix(&h.mA); rt_caller_free(h.mpc); rt_caller_free(h.mpr); h.mpc = h.mpr = nullptr; h.model = false; }
        }
    }

    // control part of the caller's floating-point environment: rounding mode, exception masks, flush-to-zero / denormals-are-zero
    // (SSE) and precision / rounding control (x87); the sticky exception flags are the arithmetic's business
    static unsigned fp_control_state() {
#if defined(__x86_64__) || defined(__i386__)
        unsigned csr = 0; unsigned short cw = 0;
        __asm__ __volatile__("stmxcsr %0" : "=m"(csr));
        __asm__ __volatile__("fnstcw %0" : "=m"(cw));
        return ((csr & 0xFFC0u) << 16) | cw;
#else
        return 0;
#endif
    }
    void run_op(const Op &o0) {
        Op o = o0;
        unsigned fp0 = fp_control_state();
        // errno belongs to the calling thread and holds whatever an earlier library or libc call left there: zero in the clean pass,
        // a stale ERANGE in the dirty passes - a call whose control flow looks at errno without clearing it first depends on history
        errno = (ctx->garbage == G_ZERO) ? 0 : ERANGE;
#if defined(XSDK_INDEX_SIZE) && (XSDK_INDEX_SIZE == 64)
        // 64-bit index build + single precision real + caller workspace is a recorded finding (KF4): library allocation instead
        if (K::letter == 's' && o.lwork > 0 && !g_force_user_workspace) o.lwork = 0;
#endif
        trace.emplace_back();
        OpResult &r = trace.back(); r.kind = o.kind;
        snprintf(g_cur_op_kind, sizeof g_cur_op_kind, "%s", o.kind.c_str());
        ctx->cur_op = (int)trace.size() - 1; // harness-side allocations made before the API call belong to this operation too
        if (dead) { r.skipped = true; r.skip_reason = "task stopped after abort/hang"; return; }
        if (o.slot < 0 || o.slot >= (int)slots.size()) { r.skipped = true; r.skip_reason = "bad slot"; return; }
        if (o.kind == "new") op_new(o, r);
        else if (o.kind == "gssvx") op_expert(o, r, false);
        else if (o.kind == "gsisx") op_expert(o, r, true);
        else if (o.kind == "gssv") op_gssv(o, r);
        else if (o.kind == "pipe") op_pipe(o, r, false);
        else if (o.kind == "ipipe") op_pipe(o, r, true);
        else if (o.kind == "equil") op_equil(o, r);
        else if (o.kind == "util") op_util(o, r);
        else if (o.kind == "destroy") { destroy_slot(slots[o.slot]); r.cls = XC_OK; }
        else if (o.kind == "bfactor" || o.kind == "bsolve" || o.kind == "bfree") op_bridge(o, r);
        else { r.skipped = true; r.skip_reason = "unknown op"; }
        { unsigned fp1 = fp_control_state(); if (fp1 != fp0) { char b[160]; snprintf(b, sizeof b, "the call returned with a different floating-point control state (MXCSR control bits / x87 control word %08x -> %08x): later arithmetic of the caller's thread is affected", fp0, fp1); viol(r, "fp-environment", b);
            // restore, so that one leak is reported once
#if defined(__x86_64__) || defined(__i386__)
            unsigned csr = 0; __asm__ __volatile__("stmxcsr %0" : "=m"(csr)); csr = (csr & 0x3Fu) | ((fp0 >> 16) & 0xFFC0u); __asm__ __volatile__("ldmxcsr %0" : : "m"(csr)); unsigned short cw = (unsigned short)(fp0 & 0xFFFFu); __asm__ __volatile__("fldcw %0" : : "m"(cw));
#endif
        } }
        for (auto &v : ctx->rt_violations) viol(r, "ledger", v);
        ctx->rt_violations.clear();
        rt_event(ctx, "op_result", (uint64_t)r.cls, r.snap.hash());
    }
    void run_all() {
        for (size_t i = 0; i < plan->ops.size(); i++) {
            run_op(plan->ops[i]);
            if (cfg.yield_at_ops) sched_op_boundary();
        }
    }
};

/* Fallback used only when /repo/SRC/superlu_config.h (cmake-generated, git-ignored) is absent,
 * e.g. in a scratch worktree.  Same content as SRC/superlu_config.h.in with everything off;
 * XSDK_INDEX_SIZE comes from the command line. */
#ifndef SUPERLU_CONFIG_H
#define SUPERLU_CONFIG_H
#if defined(XSDK_INDEX_SIZE) && (XSDK_INDEX_SIZE == 64)
#include <stdint.h>
#define _LONGINT 1
typedef int64_t int_t;
#else
typedef int int_t; /* default */
#endif
#endif

// placeholders until the workloads exist
#include "props.h"




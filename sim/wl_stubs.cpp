// placeholders until the workloads exist
#include "props.h"


Case gen_C20(uint64_t, long, const GenCfg &, const char *) { return Case(); } RunOutcome exec_C20(const Case &) { return RunOutcome(); }

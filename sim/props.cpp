#include "props.h"
#include <cstdio>
#include <fstream>

void write_inflight(const char *path, const Case &c) {
    if (!path) return;
    std::string tmp = std::string(path) + ".tmp";
    { std::ofstream f(tmp); f << case_to_json(c); }
    rename(tmp.c_str(), path);
}

Case generate_case(const std::string &prop, uint64_t seed, long run, const GenCfg &g, const char *inflight) {
    if (prop == "C07") return gen_C07(seed, run, g, inflight);
    if (prop == "C08") return gen_C08(seed, run, g, inflight);
    if (prop == "C06") return gen_C06(seed, run, g, inflight);
    if (prop == "C09") return gen_C09(seed, run, g, inflight);
    if (prop == "C19") return gen_C19(seed, run, g, inflight);
    if (prop == "C20") return gen_C20(seed, run, g, inflight);
    return Case();
}
RunOutcome execute_case(const Case &c) {
    if (c.property == "C07") return exec_C07(c);
    if (c.property == "C08") return exec_C08(c);
    if (c.property == "C06") return exec_C06(c);
    if (c.property == "C09") return exec_C09(c);
    if (c.property == "C19") return exec_C19(c);
    if (c.property == "C20") return exec_C20(c);
    return RunOutcome();
}

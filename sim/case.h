// Explicit, self-contained description of one simulated run ("case"): replay depends on nothing but this and the code.
#pragma once
#include <cstdint>
#include <string>
#include <vector>
#include "mat.h"
#include "simrt.h"

struct Op {
    std::string kind;  // new | gssv | gssvx | gsisx | pipe | destroy | bfactor | bsolve | bfree | equil
    int slot = 0;
    // options (superlu_options_t)
    int fact = 0, equil = 0, colperm = 3, trans = 0, refine = 0, symmode = 0, pivgrowth = 0, condnum = 0;
    double thresh = 1.0;
    int rowperm = 0, droprule = 9, ilunorm = 2, milu = 0;
    double droptol = 1e-4, fillfactor = 10.0, filltol = 1e-2;
    // storage of the factors: lwork 0 = library allocation, >0 caller workspace of that many bytes, -1 size query
    long lwork = 0; int align = 0;
    int wsgarbage = 0;           // how the interior of the caller workspace is pre-filled (Garbage enum)
    // right-hand sides
    int nrhs = 1, ldpad = 0; uint64_t rhs_seed = 0;
    int ldxpad = -1;             // leading dimension of X = n + ldxpad (expert drivers); -1: same as B
    // matrix creation
    int storage = 0;             // 0 SLU_NC, 1 SLU_NR
    int mat = 0;                 // index into TaskPlan::mats (kind == new)
    std::string reader;          // "" | hb | rb | mm | triple : create through the reader fed by an in-memory file
    int rsym = 0;                // reader file in symmetric storage (hb/rb/mm): lower triangle written, the reader expands it
    int rbase0 = 0;              // coordinate file (mm/triple) with zero-based indices
    int rfmt = 0;                // hb/rb: which edit descriptors the file uses
    // values of this step (same pattern); empty = keep/restore the slot's original values
    std::vector<double> re, im; std::string vchange;
    uint64_t permc_seed = 0;     // MY_PERMC: caller-supplied ordering
    // pipe stages: bit0 gstrs, bit1 gsrfs, bit2 gscon, bit3 QuerySpace, bit4 equilibrate first
    int stages = 1;
    std::vector<FaultSpec> faults;
    int handle = 0;              // bridge handle index
};

struct TaskPlan {
    char dtype = 'd';
    int tuning[7] = {20, 10, 200, 200, 100, 30, 10};
    int garbage = 0;
    std::vector<Mat> mats;
    std::vector<Op> ops;
};

// One storage schedule of C07 / one injected environment of C08
struct EnvSpec {
    long lwork = 0; int align = 0; int fill = -1; int garbage = 0; int wsgarbage = 0;
    std::vector<FaultSpec> faults;
    std::string label;
};

struct Case {
    std::string property;
    uint64_t seed = 0; long run = 0;
    std::string variant;
    std::vector<TaskPlan> tasks;
    // scheduling
    int sched_mode = 0; uint64_t sched_seed = 0; double w_fine = 0.25, w_mid = 0.25, w_coarse = 0.25; int pct_d = 2; uint64_t pct_span = 200000;
    std::vector<SliceRec> schedule;     // recorded schedule (replay) - empty = draw from sched_seed
    // differential environments (C07, C08)
    std::vector<EnvSpec> envs;
    // property specific knobs
    int prior_plans = 0;                // C09 history independence
    std::string note;
};

std::string case_to_json(const Case &c);
bool case_from_json(const std::string &text, Case &c, std::string &err);
std::string json_escape(const std::string &s);

// C07 - how factor storage is obtained never changes the answer.
// One input, many simulated storage schedules, bit-for-bit differential against a no-growth reference.
#include <functional>
#include "gen_common.h"

static ExecCfg c07_cfg(bool ref) {
    ExecCfg c; c.chk_structure = true; c.chk_identity = ref; c.chk_residual = false; c.chk_resolve_pure = false; c.capture = true;
    return c;
}
static int main_op_index(const TaskPlan &p) { for (size_t i = 0; i < p.ops.size(); i++) if (p.ops[i].kind != "new" && p.ops[i].kind != "destroy") return (int)i; return -1; }

// smallest workspace length (multiple of 4) for which the plan's factorisation does not run out of space
long find_min_lwork(const TaskPlan &plan, EnvSpec e, long hi, int *probes, const std::function<void(const EnvSpec &)> &note) {
    ExecCfg cfg; cfg.chk_structure = false; cfg.chk_identity = false; cfg.chk_residual = false; cfg.capture = false; cfg.chk_resolve_pure = false;
    int mi = main_op_index(plan);
    e.garbage = G_ZERO; e.wsgarbage = G_ZERO; // probing only: clean fresh memory (see KF-zero-pivot)
    auto ok = [&](long lw) {
        e.lwork = lw; if (note) note(e); TaskPlan q = apply_env(plan, e);
        PlanRun pr = run_plan_single(q, cfg);
        if (probes) (*probes)++;
        int cls = pr.trace[mi].cls;
        return cls == XC_OK || cls == XC_ILLCOND || cls == XC_SINGULAR;
    };
    int tries = 0;
    while (!ok(hi)) { hi *= 2; if (++tries > 4) return -1; }
    long lo = 0; // fails (treated as failing)
    while (hi - lo > 4) { long mid = ((lo + hi) / 2) / 4 * 4; if (mid <= lo) mid = lo + 4; if (ok(mid)) hi = mid; else lo = mid; }
    return hi;
}

Case gen_C07(uint64_t seed, long run, const GenCfg &g, const char *inflight) {
    Rng r(mix3(seed, 7, (uint64_t)run));
    Case c; c.property = "C07"; c.seed = seed; c.run = run; c.variant = g.variant;
    TaskPlan t; t.dtype = gen_dtype(r); bool cplx = (t.dtype == 'c' || t.dtype == 'z');
    gen_tuning(r, t.tuning, false);
    double u = r.unit();
    std::string kind = u < 0.5 ? "gssvx" : u < 0.72 ? "pipe" : u < 0.9 ? "gsisx" : "ipipe";
    int nmax = g.thorough ? (r.chance(0.1) ? 150 : 70) : 36;
    Mat A = gen_matrix(r, 2, nmax, kind == "pipe", cplx);
    t.mats.push_back(A);
    Op nw; nw.kind = "new"; nw.mat = 0; nw.storage = ((kind == "gssvx" || kind == "gsisx") && r.chance(0.2)) ? 1 : 0;
    Op mo; mo.kind = kind; gen_options(r, mo, A.m == A.n, cplx); mo.fact = DOFACT;
    if (kind == "gsisx" || kind == "ipipe") gen_ilu_options(r, mo);
    if (kind == "pipe" || kind == "ipipe") { mo.stages = (int)r.below(16); mo.equil = 0; }
    Op ds; ds.kind = "destroy";
    t.ops = {nw, mo, ds};
    c.tasks.push_back(t);
    bool ilu = (kind == "gsisx" || kind == "ipipe");
    EnvSpec ref; ref.lwork = 0; ref.fill = ilu ? t.tuning[5] : nogrow_fill(A); ref.garbage = G_ZERO; ref.label = "reference";
    c.envs.push_back(ref);
    int K = g.thorough ? 12 : 5;
    static const int fills[] = {1, 1, 2, 2, 3, 5, 8, 13};
    static const long slacks[] = {0, 0, 4, 8, 12, 16, 64, 256};
    if (inflight) write_inflight(inflight, c);
    for (int k = 0; k < K; k++) {
        EnvSpec e; e.fill = ilu ? t.tuning[5] : fills[r.below(8)];
        e.garbage = (int)r.below(G_NUM); e.wsgarbage = (int)r.below(G_NUM);
        if (k == 0 && !ilu) e.fill = 1; // every case meets the tightest estimate once under library allocation: most in-flight expansions
        if (k == 0 || r.chance(0.5)) {
            e.lwork = 0; e.label = "system";
            if (r.chance(0.4)) { FaultSpec f; f.k = r.range(1, 14); f.persist = false; e.faults.push_back(f); e.label = "system+enomem-once"; }
        } else {
            e.align = r.chance(0.5) ? 4 : 0; e.label = "user";
            std::function<void(const EnvSpec &)> note;
            if (inflight) note = [&](const EnvSpec &pe) { Case t2 = c; t2.envs.resize(1); t2.envs.push_back(pe); t2.note = "workspace-length probe of the generator"; write_inflight(inflight, t2); };
            long lo = find_min_lwork(c.tasks[0], e, ample_lwork(A, t.tuning, e.fill, cplx), nullptr, note);
            if (lo < 0) continue;
            long slack = slacks[r.below(8)];
            if (r.chance(0.2)) slack = (long)r.below((uint64_t)lo + 1);
            if (r.chance(0.1)) slack = 4 * lo;
            e.lwork = lo + slack;
            if (r.chance(0.15)) e.lwork += r.range(1, 3); // not a multiple of 4
        }
        c.envs.push_back(e);
    }
    return c;
}

RunOutcome exec_C07(const Case &c) {
    RunOutcome out; Hash64 h;
    if (c.tasks.empty() || c.envs.empty()) return out;
    const TaskPlan &plan = c.tasks[0];
    int mi = main_op_index(plan);
    if (mi < 0) return out;
    const Op &mo = plan.ops[mi];
    bool ilu = (mo.kind == "gsisx" || mo.kind == "ipipe");
    PlanRun ref;
    int nonref_used = 0, user_used = 0, maxexp = 0; bool any_growth = false;
    std::ostringstream schedkey;
    bool ref_singular = false;
    for (size_t k = 0; k < c.envs.size(); k++) {
        EnvSpec e = c.envs[k];
        // after an exactly-zero pivot the library reads never-written memory (known finding KF-zero-pivot): schedules of a
        // singular input run with clean fresh memory only
        // (only the growable factor arrays and the caller workspace: every other fresh block keeps the drawn contents)
        if (ref_singular) { if (e.garbage != G_ZERO || e.wsgarbage != G_ZERO) out.stats["dirty_factor_arrays_clean_singular"] += 1; e.garbage |= G_CLEAN_GROWTH; e.wsgarbage = G_ZERO; }
        TaskPlan q = apply_env(plan, e);
        PlanRun pr = run_plan_single(q, c07_cfg(k == 0));
        h.u64(pr.evhash);
        const OpResult &r = pr.trace[mi];
        out.stats["envs"] += 1;
        for (size_t i = 0; i < pr.trace.size(); i++) for (auto &v : pr.trace[i].violations) {
            size_t bar = v.find('|'); std::string orc = v.substr(0, bar), det = v.substr(bar + 1);
            out.violations.push_back({orc, "env " + std::to_string(k) + " (" + e.label + ") op " + std::to_string(i) + ": " + det, "C07|" + orc + "|" + mo.kind + "|" + (e.lwork > 0 ? "user" : "system")});
        }
        if (r.skipped) { out.stats["skipped"] += 1; continue; }
        out.stats[std::string("exit_") + kExitName[r.cls]] += 1;
        out.stats["fault_enomem_once_fired"] += (double)pr.once_fired;
        if (e.lwork > 0) out.stats["workspace_user"] += 1;
        if (e.align) out.stats["workspace_misaligned"] += 1;
        if (e.garbage != G_ZERO) out.stats["garbage_dirty"] += 1;
        if (k == 0) {
            ref = std::move(pr);
            const OpResult &rr = ref.trace[mi];
            ref_singular = (rr.cls == XC_SINGULAR);
            if (!ilu && rr.expansions > 0) out.stats["reference_grew"] += 1; // not a violation: the reference is only meant to be the schedule with the fewest expansions
            if (rr.cls == XC_NOSPACE || rr.cls == XC_ABORT || rr.cls == XC_HANG) return out; // nothing to compare with
            // memory usage describes the factors actually returned (documented formula of *QuerySpace)
            const std::vector<unsigned char> *mu = rr.snap.get("mu.for_lu"), *xl = rr.snap.get("L.xlsub"), *xs = rr.snap.get("L.xlusup"), *xu = rr.snap.get("U.xusub");
            if (mu && xl && xs && xu) {
                int n = plan.mats[0].n; int_t nl, ns, nu; memcpy(&nl, xl->data() + (size_t)n * sizeof(int_t), sizeof(int_t)); memcpy(&ns, xs->data() + (size_t)n * sizeof(int_t), sizeof(int_t)); memcpy(&nu, xu->data() + (size_t)n * sizeof(int_t), sizeof(int_t));
                double dword = (plan.dtype == 'd') ? 8 : (plan.dtype == 's') ? 4 : (plan.dtype == 'c') ? 8 : 16;
                // "memory usage describes the factors actually returned": for_lu is documented as the bytes used by the L\\U data
                // structures, and that is an objective quantity of what was returned: the stored values, the row-index arrays and
                // the pointer arrays (sup_to_col/col_to_sup hold int, every other index array holds int_t). Tolerance: 16 bytes
                // (today's accounting counts 4n+3 instead of 4n+4 pointer entries) + float rounding.
                double idx = (double)sizeof(int_t);
                double expect = (double)(ns + nu) * dword + idx * ((double)nl + nu) + (2.0 * n + 1.0) * 4 + (2.0 * n + 2.0) * idx + (n + 1.0) * idx;
                float got; memcpy(&got, mu->data(), 4);
                if (got != -7.0f && !(std::fabs(got - expect) <= 16 + 1e-6 * expect))
                    out.violations.push_back({"mem-usage", "for_lu " + std::to_string(got) + " does not describe the returned factors: " + std::to_string(expect) + " bytes are used (n " + std::to_string(n) + ", " + std::to_string(ns) + " values in L, " + std::to_string(nu) + " in U, " + std::to_string(nl) + " row indices of L, " + std::to_string((int)idx) + "-byte indices)", "C07|mem-usage|" + mo.kind});
            }
            continue;
        }
        if (r.cls == XC_NOSPACE) { out.stats["discarded_nospace"] += 1; continue; }
        if (r.cls == XC_ABORT || r.cls == XC_HANG) continue; // already a violation above
        nonref_used++;
        if (e.lwork > 0) user_used++;
        if (r.expansions > 0) { any_growth = true; out.stats["envs_with_expansion"] += 1; if (e.lwork > 0) out.stats["envs_with_expansion_user"] += 1; }
        if (r.expansions >= 3) out.stats["envs_with_3plus_expansions"] += 1;
        maxexp = std::max(maxexp, r.expansions);
        if (r.growth_failed > 0) out.stats["envs_with_retry_after_enomem"] += 1;
        std::string d = snap_diff(ref.trace[mi].snap, r.snap, {"stat.expansions"});
        if (!d.empty() && getenv("SIM_DUMP")) {
            std::string fld = d.substr(0, d.find('@'));
            const std::vector<unsigned char> *fa = ref.trace[mi].snap.get(fld), *fb = r.snap.get(fld);
            for (int w = 0; w < 2; w++) { const std::vector<unsigned char> *f = w ? fb : fa; if (!f) continue; fprintf(stderr, "%s %s:", w ? "env" : "ref", fld.c_str());
                for (size_t i = 0; i + 8 <= f->size() && i < 800; i += 8) { double v; memcpy(&v, f->data() + i, 8); fprintf(stderr, " %.6g", v); } fprintf(stderr, "\n"); }
            for (const char *nm : {"U.xusub", "U.usub", "L.xlusup", "perm_r", "info", "stat.expansions"}) for (int w = 0; w < 2; w++) { const std::vector<unsigned char> *f = (w ? r.snap : ref.trace[mi].snap).get(nm); if (!f) continue; fprintf(stderr, "%s %s:", w ? "env" : "ref", nm);
                for (size_t i = 0; i + 4 <= f->size() && i < 400; i += 4) { int v; memcpy(&v, f->data() + i, 4); fprintf(stderr, " %d", v); } fprintf(stderr, "\n"); }
        }
        if (!d.empty()) {
            out.violations.push_back({"bit-identity", "env " + std::to_string(k) + " (" + e.label + ", fill " + std::to_string(e.fill) + ", lwork " + std::to_string(e.lwork) + ", align " + std::to_string(e.align) +
                                      ", expansions " + std::to_string(r.expansions) + ") differs from the reference in field " + d, "C07|bit-identity|" + mo.kind + "|" + (e.lwork > 0 ? "user" : "system")});
        }
        // expansions counter describes what happened: in SYSTEM mode without injected failures every growth = one request
        if (e.lwork == 0 && e.faults.empty()) {
            // library allocation, no injected failure: every expansion is exactly one growth request after the four initial ones
            // statistic only (the property speaks of nonzero counts and memory usage, not of this counter)
            if (r.expansions == r.growth_reqs - 4) out.stats["stat_expansions_counter_matches_allocator"] += 1; else out.stats["stat_expansions_counter_differs_from_allocator"] += 1;
        }
        schedkey << (e.lwork > 0 ? "U" : "S") << e.fill << (e.align ? "a" : "") << (e.faults.empty() ? "" : "f") << r.expansions << ",";
    }
    out.hash = h.h;
    out.stats["max_expansions"] = maxexp; // aggregated as max by the driver (name prefix max_)
    out.nontrivial = nonref_used > 0 && (any_growth || user_used > 0);
    { Hash64 k; k.str(plan.mats[0].family.c_str()); k.u64((uint64_t)plan.mats[0].n * 1000003ULL + plan.mats[0].nnz()); for (double v : plan.mats[0].re) k.bytes(&v, 8); k.str(schedkey.str().c_str()); out.distinct_key = std::to_string(k.h); }
    std::ostringstream s;
    s << "{\"dtype\":\"" << plan.dtype << "\",\"matrix\":\"" << plan.mats[0].family << " " << plan.mats[0].m << "x" << plan.mats[0].n << " nnz " << plan.mats[0].nnz() << "\",\"op\":\"" << op_brief(mo)
      << "\",\"tuning\":\"" << tuning_brief(plan.tuning) << "\",\"schedules\":\"" << schedkey.str() << "\"}";
    out.sample = s.str();
    return out;
}

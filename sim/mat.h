// Matrices as the harness sees them (CSC, values as (re,im) doubles) and the seeded generators.
#pragma once
#include <algorithm>
#include <cmath>
#include <set>
#include <string>
#include <vector>
#include "prng.h"

struct Mat {
    int m = 0, n = 0;
    std::vector<int> colptr, rowind;
    std::vector<double> re, im;
    std::string family;
    std::vector<int> trans;   // generator only: index of the structural transversal entry of every column (not serialised)
    int nnz() const { return (int)rowind.size(); }
};

static const char *const kFamilies[] = {"random", "banded", "arrow", "blockdiag", "denserowcol", "permtri", "grid2d", "diagonal", "tiny"};

// Build CSC from a set of (row,col) pairs.
static inline Mat mat_from_pattern(int m, int n, const std::set<std::pair<int, int>> &colrow) {
    Mat A; A.m = m; A.n = n; A.colptr.assign(n + 1, 0);
    for (auto &cr : colrow) A.colptr[cr.first + 1]++;
    for (int j = 0; j < n; j++) A.colptr[j + 1] += A.colptr[j];
    A.rowind.reserve(colrow.size());
    for (auto &cr : colrow) A.rowind.push_back(cr.second); // set is ordered by (col,row)
    A.re.assign(A.rowind.size(), 0.0); A.im.assign(A.rowind.size(), 0.0);
    return A;
}

// Structurally nonsingular pattern of the given family; m >= n (tall allowed for the factor routine).
static inline Mat gen_pattern(Rng &r, int n, int m, const std::string &family) {
    std::set<std::pair<int, int>> P; // (col,row)
    std::vector<int> perm(m);
    for (int i = 0; i < m; i++) perm[i] = i;
    bool permute_rows = r.chance(0.5);
    if (permute_rows) for (int i = m - 1; i > 0; i--) std::swap(perm[i], perm[(int)r.below(i + 1)]);
    auto add = [&](int row, int col) { if (row >= 0 && row < m && col >= 0 && col < n) P.insert({col, perm[row]}); };
    for (int j = 0; j < n; j++) add(j, j); // transversal
    if (family == "random") {
        double dens = 0.02 + 0.25 * r.unit() * r.unit();
        long cnt = (long)(dens * m * n) + r.range(0, n);
        for (long k = 0; k < cnt; k++) add(r.range(0, m - 1), r.range(0, n - 1));
    } else if (family == "banded") {
        int kl = r.range(0, 4), ku = r.range(0, 4);
        for (int j = 0; j < n; j++) for (int i = j - ku; i <= j + kl; i++) if (r.chance(0.8)) add(i, j);
    } else if (family == "arrow") {
        bool first = r.chance(0.5);
        int k = first ? 0 : n - 1;
        for (int j = 0; j < n; j++) { add(k, j); add(j, k); }
        for (int j = 0; j < n; j++) if (r.chance(0.1)) add(r.range(0, m - 1), j);
    } else if (family == "blockdiag") {
        int bs = r.range(2, 6);
        for (int b = 0; b < n; b += bs)
            for (int j = b; j < std::min(n, b + bs); j++) for (int i = b; i < std::min(n, b + bs); i++) if (r.chance(0.7)) add(i, j);
        int coup = r.range(0, n / 2);
        for (int k = 0; k < coup; k++) add(r.range(0, m - 1), r.range(0, n - 1));
    } else if (family == "denserowcol") {
        int nr = r.range(1, 2), nc = r.range(0, 2);
        for (int k = 0; k < nr; k++) { int i = r.range(0, m - 1); for (int j = 0; j < n; j++) if (r.chance(0.9)) add(i, j); }
        for (int k = 0; k < nc; k++) { int j = r.range(0, n - 1); for (int i = 0; i < m; i++) if (r.chance(0.9)) add(i, j); }
        for (int k = 0; k < n; k++) add(r.range(0, m - 1), r.range(0, n - 1));
    } else if (family == "permtri") {
        bool lower = r.chance(0.5);
        for (int j = 0; j < n; j++) for (int i = 0; i < n; i++)
            if ((lower ? i > j : i < j) && r.chance(0.25)) add(i, j);
    } else if (family == "grid2d") {
        int nx = std::max(1, (int)std::sqrt((double)n));
        for (int j = 0; j < n; j++) {
            int x = j % nx;
            if (x > 0) add(j - 1, j);
            if (x < nx - 1) add(j + 1, j);
            add(j - nx, j); add(j + nx, j);
        }
    } else if (family == "diagonal") {
        if (r.chance(0.3)) add(r.range(0, m - 1), r.range(0, n - 1));
    } else { // tiny: dense-ish
        for (int j = 0; j < n; j++) for (int i = 0; i < m; i++) if (r.chance(0.6)) add(i, j);
    }
    if (m > n) for (int i = n; i < m; i++) if (r.chance(0.7)) add(i, r.range(0, n - 1));
    Mat A = mat_from_pattern(m, n, P);
    A.family = family;
    A.trans.assign(n, -1);
    for (int j = 0; j < n; j++) for (int k = A.colptr[j]; k < A.colptr[j + 1]; k++) if (A.rowind[k] == perm[j]) A.trans[j] = k;
    return A;
}

static const char *const kValueModes[] = {"uniform", "smallint", "dominant", "scaled"};

// Fill values. `perm`-independent: dominance is put on the largest entry per column chosen structurally.
static inline void gen_values(Rng &r, Mat &A, const std::string &mode, bool cplx) {
    size_t nz = A.rowind.size();
    A.re.assign(nz, 0); A.im.assign(nz, 0);
    for (size_t k = 0; k < nz; k++) {
        if (mode == "smallint") {
            int v = r.range(-3, 3); if (v == 0) v = 1 + r.range(0, 2);
            A.re[k] = v; A.im[k] = cplx ? r.range(-2, 2) : 0;
        } else {
            A.re[k] = r.sym(); A.im[k] = cplx ? r.sym() : 0;
            if (std::fabs(A.re[k]) < 1e-3) A.re[k] = 0.5;
        }
    }
    if (mode == "dominant") {
        // make one entry per column dominant: the first stored one on the structural transversal is unknown after
        // row permutation, so boost the entry of largest magnitude in each column
        // strictly dominant on the structural transversal (one entry per row and column): nonsingular, modest growth
        for (int j = 0; j < A.n; j++) {
            int best = (j < (int)A.trans.size()) ? A.trans[j] : -1; double bm = -1;
            if (best < 0) for (int k = A.colptr[j]; k < A.colptr[j + 1]; k++) { double a = std::fabs(A.re[k]) + std::fabs(A.im[k]); if (a > bm) { bm = a; best = k; } }
            if (best >= 0) { double sum = 0; for (int k = A.colptr[j]; k < A.colptr[j + 1]; k++) if (k != best) sum += std::fabs(A.re[k]) + std::fabs(A.im[k]);
                A.re[best] = (A.re[best] >= 0 ? 1 : -1) * (sum + 1.0 + std::fabs(A.re[best])); }
        }
    } else if (mode == "scaled") {
        std::vector<double> rs(A.m), cs(A.n);
        for (auto &v : rs) v = std::ldexp(1.0, r.range(-12, 12));
        for (auto &v : cs) v = std::ldexp(1.0, r.range(-12, 12));
        for (int j = 0; j < A.n; j++) for (int k = A.colptr[j]; k < A.colptr[j + 1]; k++) { double s = rs[A.rowind[k]] * cs[j]; A.re[k] *= s; A.im[k] *= s; }
    }
}

static inline Mat gen_matrix(Rng &r, int nmin, int nmax, bool allow_tall, bool cplx) {
    std::string fam = kFamilies[r.below(sizeof(kFamilies) / sizeof(kFamilies[0]))];
    int n;
    if (fam == "tiny") n = r.range(1, 3);
    else n = r.range(std::max(nmin, 2), nmax);
    int m = n;
    if (allow_tall && r.chance(0.3)) m = n + r.range(1, std::max(1, n / 2));
    Mat A = gen_pattern(r, n, m, fam);
    std::string vm = kValueModes[r.below(4)];
    gen_values(r, A, vm, cplx);
    A.family = fam + "/" + vm;
    // compressed-column storage does not require sorted row indices inside a column: a third of the matrices come unsorted
    // (own stream derived from the pattern, so that the matrices themselves stay what they were)
    { Hash64 hp; hp.u64((uint64_t)A.n * 1000003ULL + (uint64_t)A.nnz()); for (int v : A.rowind) hp.u64((uint64_t)v);
      Rng rs(hp.h);
      if (rs.chance(0.33)) {
          for (int j = 0; j < A.n; j++) for (int k = A.colptr[j + 1] - 1; k > A.colptr[j]; k--) {
              int q = A.colptr[j] + (int)rs.below((uint64_t)(k - A.colptr[j] + 1));
              std::swap(A.rowind[k], A.rowind[q]); std::swap(A.re[k], A.re[q]); std::swap(A.im[k], A.im[q]);
          }
          A.trans.clear(); A.family += "/unsorted";
      } }
    return A;
}

// Perfect matching of columns to rows (augmenting paths).
static inline bool structurally_nonsingular(const Mat &A) {
    if (A.m < A.n) return false;
    std::vector<int> match_row(A.m, -1);
    std::vector<char> seen;
    struct Rec { static bool go(const Mat &A, int j, std::vector<char> &seen, std::vector<int> &mr) {
        for (int p = A.colptr[j]; p < A.colptr[j + 1]; p++) { int r = A.rowind[p]; if (seen[r]) continue; seen[r] = 1;
            if (mr[r] < 0 || go(A, mr[r], seen, mr)) { mr[r] = j; return true; } }
        return false; } };
    for (int j = 0; j < A.n; j++) { seen.assign(A.m, 0); if (!Rec::go(A, j, seen, match_row)) return false; }
    return true;
}

// Symmetric matrix (pattern and values) from the lower triangle of a square G, as a symmetric-storage matrix file
// describes it; some diagonal entries are left out (drop = probability per diagonal entry) as long as the matrix stays
// structurally nonsingular.
static inline Mat symmetrize(Rng &r, const Mat &G, double drop) {
    int n = G.n;
    std::set<std::pair<int, int>> P;
    std::vector<std::vector<std::pair<int, int>>> low(n); // per column: (row, index in G)
    for (int j = 0; j < n; j++) for (int k = G.colptr[j]; k < G.colptr[j + 1]; k++) { int i = G.rowind[k]; if (i < n && i > j) { P.insert({j, i}); P.insert({i, j}); } }
    for (int j = 0; j < n; j++) P.insert({j, j});
    Mat S = mat_from_pattern(n, n, P);
    for (int j = 0; j < n; j++) if (r.chance(drop)) {
        std::set<std::pair<int, int>> Q = P; Q.erase({j, j});
        if (Q.size() < (size_t)n) continue;
        bool colempty = true; for (auto &cr : Q) if (cr.first == j) { colempty = false; break; }
        if (colempty) continue;
        Mat T = mat_from_pattern(n, n, Q);
        if (structurally_nonsingular(T)) { P.swap(Q); S = T; }
    }
    // values: lower triangle drawn, mirrored
    for (int j = 0; j < n; j++) for (int k = S.colptr[j]; k < S.colptr[j + 1]; k++) if (S.rowind[k] >= j) {
        double re = r.sym(), im = r.sym(); if (std::fabs(re) < 1e-3) re = 0.5;
        if (S.rowind[k] == j) re += (re >= 0 ? 2.0 : -2.0);
        S.re[k] = re; S.im[k] = im;
    }
    for (int j = 0; j < n; j++) for (int k = S.colptr[j]; k < S.colptr[j + 1]; k++) { int i = S.rowind[k]; if (i < j) {
        for (int q = S.colptr[i]; q < S.colptr[i + 1]; q++) if (S.rowind[q] == j) { S.re[k] = S.re[q]; S.im[k] = S.im[q]; break; } } }
    S.family = G.family + "/sym";
    return S;
}

// transpose-convert CSC -> CSR arrays (rowptr, colind, values) for SLU_NR storage
static inline void csc_to_csr(const Mat &A, std::vector<int> &rowptr, std::vector<int> &colind, std::vector<double> &re, std::vector<double> &im) {
    rowptr.assign(A.m + 1, 0);
    for (int r : A.rowind) rowptr[r + 1]++;
    for (int i = 0; i < A.m; i++) rowptr[i + 1] += rowptr[i];
    colind.assign(A.rowind.size(), 0); re.assign(A.rowind.size(), 0); im.assign(A.rowind.size(), 0);
    std::vector<int> pos(rowptr.begin(), rowptr.end() - 1);
    for (int j = 0; j < A.n; j++) for (int k = A.colptr[j]; k < A.colptr[j + 1]; k++) {
        int p = pos[A.rowind[k]]++; colind[p] = j; re[p] = A.re[k]; im[p] = A.im[k];
    }
}

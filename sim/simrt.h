// Simulator runtime: the environment SuperLU runs in (allocator + ledger + ENOMEM faults + garbage,
// tuning provider, simulated clock, abort handler, seeded scheduler over real threads).
#pragma once
#include <csetjmp>
#include <cstdint>
#include <cstddef>
#include <string>
#include <vector>
#include <unordered_map>
#include "prng.h"
#include "sim_hooks.h"

enum Garbage { G_ZERO = 0, G_FF, G_RANDOM, G_STALE, G_NAN, G_A5, G_NUM };
static const char *const kGarbageName[] = {"zero", "ff", "random", "stale", "nan", "a5"};
static const int G_CLEAN_GROWTH = 0x100; // flag or-ed into a plan's garbage mode: see TaskCtx::clean_growth

// "the k-th factor-growth request (malloc issued from [sdcz]expand) of this operation returns NULL";
// persist: every later growth request of the operation fails too (memory really exhausted).
struct FaultSpec { int k = 0; bool persist = false; };

struct AllocRec {
    uint64_t id; size_t size; const char *file; const char *func; int line; int op; bool caller; bool growth;
};
struct GrowthEvent { int k; size_t size; bool failed; };

enum Escape { ESC_NONE = 0, ESC_ABORT = 1, ESC_HANG = 2 };

struct TaskCtx {
    // ---- fields touched by the un-instrumented scheduler TU (plain data only) ----
    int id = 0;
    uint64_t steps = 0;            // instrumented edges executed by this task == simulated CPU time in ns
    uint64_t next_switch = ~0ULL;  // pre-empt when steps reaches this
    uint64_t budget = ~0ULL;       // hang budget
    uint64_t slice_start = 0;
    jmp_buf *escape = nullptr;     // where abort / hang unwind to
    int escape_code = 0;
    // ---- environment ----
    int tuning[7] = {20, 10, 200, 200, 100, 30, 10};
    Garbage garbage = G_ZERO;
    bool clean_growth = false;   // blocks obtained at the factor-growth sites ([sdcz]expand) are handed out zeroed whatever `garbage` says (KF1 policy)
    Rng grng{7};
    // ---- allocator / ledger ----
    std::unordered_map<void *, AllocRec> live;
    uint64_t next_alloc_id = 1;
    int cur_op = -1;
    std::vector<FaultSpec> faults;       // active in the current operation
    int growth_count = 0;                // growth requests seen in the current operation
    std::vector<GrowthEvent> growth_log; // of the current operation
    uint64_t n_alloc = 0, n_free = 0, n_growth_req = 0, n_growth_failed = 0, bytes_alloc = 0;
    uint64_t n_fault_once_fired = 0, n_fault_persist_fired = 0;
    std::vector<std::vector<unsigned char>> stale; // ring of freed contents
    size_t stale_pos = 0;
    std::string abort_msg;
    std::vector<std::string> rt_violations; // invalid/double free, free of foreign block
    Hash64 evh;                              // event-log hash (ids, sizes, sites; never addresses)
    bool log_events = false;
    std::vector<std::string> events;         // textual event log when log_events
};

extern __thread TaskCtx *g_task;

void rt_bind(TaskCtx *t);
void rt_op_begin(TaskCtx *t, int op, const std::vector<FaultSpec> &faults);
void rt_op_end(TaskCtx *t);
void *rt_caller_malloc(size_t n);
void rt_caller_free(void *p);
bool rt_is_live(TaskCtx *t, void *p);
std::vector<AllocRec> rt_live_blocks(TaskCtx *t, bool library_only);
void rt_release_all(TaskCtx *t);
void rt_event(TaskCtx *t, const char *what, uint64_t a = 0, uint64_t b = 0);

// ---------------- scheduler (sched_nosan.cpp) ----------------
struct SliceRec { int task; uint64_t edges; int kind; }; // kind: 0 slice used up at a basic-block edge, 1 ended at an operation boundary, 2 task finished
enum SchedMode { SM_SLICES = 0, SM_PCT = 1, SM_REPLAY = 2 };
struct SchedConfig {
    int mode = SM_SLICES;
    uint64_t seed = 1;
    double w_fine = 0.25, w_mid = 0.25, w_coarse = 0.25;  // rest: run to completion
    uint64_t total_steps_hint = 0;  // for PCT change points
    int pct_d = 2;
    const SliceRec *replay = nullptr; int nreplay = 0;
};
struct SchedResult {
    std::vector<SliceRec> slices;      // the schedule actually taken
    uint64_t switches = 0;             // hand-overs to a different task
    uint64_t switches_in_library = 0;  // ... that happened at a basic-block edge inside library code
    uint64_t interleaving_hash = 0;    // hash of (task, guard id) at each switch
    std::vector<uint32_t> switch_guards;
};
typedef void (*TaskFn)(void *arg);
// Runs n task bodies on n real threads, exactly one at a time, every hand-over decided by the seeded scheduler.
void sched_run(int n, TaskCtx **ctx, TaskFn fn, void **args, const SchedConfig &cfg, SchedResult *res);
void sched_op_boundary();   // called by a task between two API operations (a legal pre-emption point)
// coverage
uint32_t cov_num_guards();
uint32_t cov_count_hit();
void cov_dump(const char *path);          // "id pc" lines for offline symbolisation
const char *cov_file_of_guard(uint32_t g); // not available online (nullptr)

// Seeded serialising scheduler over real pthreads + the trace-pc-guard callback.
//
// This translation unit is compiled WITHOUT -fsanitize=thread (see tools/build.py): the baton that
// serialises the tasks must stay invisible to ThreadSanitizer, so that TSan sees no happens-before
// edge between two tasks except the ones the library itself creates.  Any two conflicting accesses
// to library state by two tasks are then reported deterministically, whatever the interleaving was,
// while the execution itself is fully serialised and replayable.
//
// Code here that runs on task threads uses plain data only (no STL calls).
#include "simrt.h"
#include <climits>
#include <cmath>
#include <cstdio>
#include <cstdlib>
#include <cstring>
#include <linux/futex.h>
#include <pthread.h>
#include <sys/syscall.h>
#include <unistd.h>

#define MAXTASK 8
#define MAXLOG (1 << 16)

// ------------------------------------------------------------------ coverage
#define MAXGUARD (1u << 20)
static uint32_t g_nguards = 0;
static unsigned char g_cov[MAXGUARD];
static void *g_pc[MAXGUARD];

extern "C" void __sanitizer_cov_trace_pc_guard_init(uint32_t *start, uint32_t *stop) {
    if (start == stop || *start) return;
    for (uint32_t *x = start; x < stop; x++) *x = (++g_nguards < MAXGUARD) ? g_nguards : MAXGUARD - 1;
}
uint32_t cov_num_guards() { return g_nguards; }
uint32_t cov_count_hit() { uint32_t c = 0; for (uint32_t i = 1; i <= g_nguards && i < MAXGUARD; i++) c += g_cov[i]; return c; }
extern "C" char __executable_start;
void cov_dump(const char *path) {   // image-relative PCs: comparable across processes (ASLR) and what llvm-symbolizer expects for a PIE
    FILE *f = fopen(path, "w"); if (!f) return;
    for (uint32_t i = 1; i <= g_nguards && i < MAXGUARD; i++) if (g_cov[i]) fprintf(f, "0x%lx\n", (unsigned long)((char *)g_pc[i] - &__executable_start));
    fclose(f);
}

// ------------------------------------------------------------------ scheduler state
struct Sched {
    int active;            // a multi-task run is in progress
    int n;
    TaskCtx *ctx[MAXTASK];
    int state[MAXTASK];    // 0 runnable, 1 finished
    int turn;              // futex word: id of the task that may run; -1: controller
    int mode;
    Rng rng;
    double w_fine, w_mid, w_coarse;
    // PCT
    int prio[MAXTASK];
    uint64_t change[8]; int nchange, ichange; uint64_t global_steps; int low_prio;
    // replay
    const SliceRec *replay; int nreplay, ireplay;
    // log
    SliceRec *log; int nlog;
    uint32_t *swg; int nswg;
    uint64_t switches, switches_lib, ihash;
};
static Sched S;

static inline int load_turn() { return __atomic_load_n(&S.turn, __ATOMIC_ACQUIRE); }
static void set_turn(int v) {
    __atomic_store_n(&S.turn, v, __ATOMIC_RELEASE);
    syscall(SYS_futex, &S.turn, FUTEX_WAKE, INT_MAX, nullptr, nullptr, 0);
}
static void wait_turn(int me) {
    int v;
    while ((v = load_turn()) != me) syscall(SYS_futex, &S.turn, FUTEX_WAIT, v, nullptr, nullptr, 0);
}

static uint64_t draw_slice() {
    double u = S.rng.unit(), mean;
    if (u < S.w_fine) mean = 30; else if (u < S.w_fine + S.w_mid) mean = 3000;
    else if (u < S.w_fine + S.w_mid + S.w_coarse) mean = 300000; else return ~0ULL >> 2;
    double e = -log(1.0 - S.rng.unit());
    uint64_t len = 1 + (uint64_t)(mean * e);
    return len;
}

// Decide who runs next and for how long.  `from` = task giving up the baton (-1: controller at start).
static int decide(int from, uint64_t *slice) {
    int runnable[MAXTASK], nr = 0;
    for (int i = 0; i < S.n; i++) if (S.state[i] == 0) runnable[nr++] = i;
    if (nr == 0) return -1;
    if (S.mode == SM_REPLAY) {
        while (S.ireplay < S.nreplay) {
            SliceRec r = S.replay[S.ireplay++];
            // a slice that ended at an operation boundary (or with the task) is replayed as "run until that happens"
            if (r.task >= 0 && r.task < S.n && S.state[r.task] == 0) { *slice = (r.kind != 0) ? (~0ULL >> 2) : (r.edges ? r.edges : 1); return r.task; }
        }
        *slice = ~0ULL >> 2; return runnable[0];
    }
    if (S.mode == SM_PCT) {
        int best = runnable[0];
        for (int i = 1; i < nr; i++) if (S.prio[runnable[i]] > S.prio[best]) best = runnable[i];
        uint64_t until = (S.ichange < S.nchange) ? S.change[S.ichange] : ~0ULL >> 2;
        *slice = (until > S.global_steps) ? until - S.global_steps : 1;
        return best;
    }
    int t = runnable[S.rng.below((uint64_t)nr)];
    *slice = draw_slice();
    (void)from;
    return t;
}

static void log_slice(int task, uint64_t edges, int kind) {
    if (S.nlog < MAXLOG) { S.log[S.nlog].task = task; S.log[S.nlog].edges = edges; S.log[S.nlog].kind = kind; S.nlog++; }
}

// Called on the thread of task `t` (holding the baton): give it to the next task, wait to get it back.
static void handover(TaskCtx *t, uint32_t guard, int finished) {
    uint64_t ran = t->steps - t->slice_start;
    log_slice(t->id, ran, finished ? 2 : (guard ? 0 : 1));
    S.global_steps += ran;
    if (S.mode == SM_PCT && !finished && S.ichange < S.nchange && S.global_steps >= S.change[S.ichange]) {
        S.prio[t->id] = S.low_prio--; S.ichange++;
    }
    if (finished) S.state[t->id] = 1;
    uint64_t slice = 0;
    int nx = decide(t->id, &slice);
    if (nx < 0) { set_turn(-1); return; }
    TaskCtx *n = S.ctx[nx];
    n->slice_start = n->steps;
    n->next_switch = (slice > (~0ULL >> 3)) ? ~0ULL : n->steps + slice;
    if (nx != t->id) {
        S.switches++;
        if (guard) S.switches_lib++;
        S.ihash = (S.ihash ^ (((uint64_t)nx << 32) | guard)) * 0x100000001b3ULL;
        if (S.nswg < MAXLOG) S.swg[S.nswg++] = guard;
        set_turn(nx);
        if (!finished) wait_turn(t->id);
    }
}

extern "C" void __sanitizer_cov_trace_pc_guard(uint32_t *guard) {
    TaskCtx *t = g_task;
    if (!t) return;
    uint32_t g = *guard;
    uint64_t s = ++t->steps;
    if (!g_cov[g]) { g_cov[g] = 1; g_pc[g] = __builtin_return_address(0); }
    if (s >= t->next_switch) {
        if (S.active) handover(t, g, 0); else t->next_switch = ~0ULL;
    }
    if (s > t->budget && t->escape) {
        t->budget = ~0ULL;
        if (getenv("SIM_HANG_ABORT")) abort();
        t->escape_code = ESC_HANG;
        longjmp(*t->escape, ESC_HANG);
    }
}

void sched_op_boundary() {
    TaskCtx *t = g_task;
    if (!t || !S.active) return;
    handover(t, 0, 0);
}

struct Tramp { TaskCtx *ctx; TaskFn fn; void *arg; };
static void *tramp(void *p) {
    Tramp *tr = (Tramp *)p;
    rt_bind(tr->ctx);
    wait_turn(tr->ctx->id);
    tr->fn(tr->arg);
    handover(tr->ctx, 0, 1);
    rt_bind(nullptr);
    return nullptr;
}

void sched_run(int n, TaskCtx **ctx, TaskFn fn, void **args, const SchedConfig &cfg, SchedResult *res) {
    if (n > MAXTASK) n = MAXTASK;
    static SliceRec *logbuf = (SliceRec *)malloc(sizeof(SliceRec) * MAXLOG);
    static uint32_t *swgbuf = (uint32_t *)malloc(sizeof(uint32_t) * MAXLOG);
    memset(&S, 0, sizeof S);
    S.n = n; S.mode = cfg.mode; S.rng.reseed(cfg.seed);
    S.w_fine = cfg.w_fine; S.w_mid = cfg.w_mid; S.w_coarse = cfg.w_coarse;
    S.replay = cfg.replay; S.nreplay = cfg.nreplay;
    S.log = logbuf; S.swg = swgbuf;
    S.turn = -2; // nobody
    for (int i = 0; i < n; i++) { S.ctx[i] = ctx[i]; ctx[i]->id = i; S.state[i] = 0; ctx[i]->next_switch = ~0ULL; }
    if (cfg.mode == SM_PCT) {
        // random distinct priorities, d change points over the estimated length of the run
        for (int i = 0; i < n; i++) S.prio[i] = i + 1;
        for (int i = n - 1; i > 0; i--) { int j = (int)S.rng.below((uint64_t)i + 1); int tmp = S.prio[i]; S.prio[i] = S.prio[j]; S.prio[j] = tmp; }
        S.low_prio = 0;
        S.nchange = cfg.pct_d > 8 ? 8 : cfg.pct_d;
        uint64_t tot = cfg.total_steps_hint ? cfg.total_steps_hint : 100000;
        for (int i = 0; i < S.nchange; i++) S.change[i] = 1 + S.rng.below(tot);
        for (int i = 0; i < S.nchange; i++) for (int j = i + 1; j < S.nchange; j++)
            if (S.change[j] < S.change[i]) { uint64_t tmp = S.change[i]; S.change[i] = S.change[j]; S.change[j] = tmp; }
    }
    Tramp tr[MAXTASK]; pthread_t th[MAXTASK];
    S.active = 1;
    for (int i = 0; i < n; i++) { tr[i] = {ctx[i], fn, args[i]}; pthread_create(&th[i], nullptr, tramp, &tr[i]); }
    uint64_t slice = 0;
    int first = decide(-1, &slice);
    if (first >= 0) {
        TaskCtx *f = S.ctx[first];
        f->slice_start = f->steps;
        f->next_switch = (slice > (~0ULL >> 3)) ? ~0ULL : f->steps + slice;
        set_turn(first);
        wait_turn(-1);
    }
    for (int i = 0; i < n; i++) pthread_join(th[i], nullptr);
    S.active = 0;
    if (res) {
        res->slices.assign(S.log, S.log + S.nlog);
        res->switches = S.switches; res->switches_in_library = S.switches_lib; res->interleaving_hash = S.ihash;
        res->switch_guards.assign(S.swg, S.swg + S.nswg);
    }
}

// ------------------------------------------------------------------ sanitizer death callback
// Runs inside the sanitizer's Die(): no instrumented code, no intercepted libc call (raw write syscall only).
extern __thread char g_cur_op_kind[32];
int g_death_fd = -1;
extern "C" void sim_death_callback(void) {
    char b[80]; int n = 0; const char *pre = "X sanitizer-death op:";
    while (pre[n]) { b[n] = pre[n]; n++; }
    for (int i = 0; i < 31 && g_cur_op_kind[i]; i++) b[n++] = g_cur_op_kind[i];
    b[n++] = '\n';
    if (g_death_fd >= 0) syscall(SYS_write, g_death_fd, b, (long)n);
}

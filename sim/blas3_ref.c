/* Reference level-3 BLAS kernels for the vendor-BLAS code paths of SuperLU (variant asan-vblas only).
 * STUB component, declared as such in the evidence: only the cases SuperLU calls are implemented
 * (xTRSM side=L, trans=N, uplo L/unit or U/non-unit; xGEMM N,N).  Anything else aborts. */
#include <stdlib.h>
#include <stdio.h>
typedef struct { float r, i; } scx;
typedef struct { double r, i; } dcx;

#define REAL_KERNELS(P, T)                                                                                     \
void P##gemm_(const char *ta, const char *tb, const int *m, const int *n, const int *k, const T *alpha,       \
              const T *a, const int *lda, const T *b, const int *ldb, const T *beta, T *c, const int *ldc) {  \
    if ((*ta != 'N' && *ta != 'n') || (*tb != 'N' && *tb != 'n')) { fprintf(stderr, "blas3_ref: unsupported gemm\n"); abort(); } \
    for (int j = 0; j < *n; j++) for (int i = 0; i < *m; i++) {                                                \
        T s = 0; for (int l = 0; l < *k; l++) s += a[i + (size_t)l * *lda] * b[l + (size_t)j * *ldb];          \
        c[i + (size_t)j * *ldc] = *alpha * s + (*beta == 0 ? 0 : *beta * c[i + (size_t)j * *ldc]);            \
    }                                                                                                          \
}                                                                                                              \
void P##trsm_(char *side, char *uplo, char *trans, char *diag, int *m, int *n, T *alpha, T *a, int *lda, T *b, int *ldb) { \
    if ((*side != 'L' && *side != 'l') || (*trans != 'N' && *trans != 'n')) { fprintf(stderr, "blas3_ref: unsupported trsm\n"); abort(); } \
    int lower = (*uplo == 'L' || *uplo == 'l'), unit = (*diag == 'U' || *diag == 'u');                          \
    for (int j = 0; j < *n; j++) {                                                                             \
        T *x = b + (size_t)j * *ldb;                                                                           \
        for (int i = 0; i < *m; i++) x[i] *= *alpha;                                                           \
        if (lower) { for (int k = 0; k < *m; k++) { if (!unit) x[k] /= a[k + (size_t)k * *lda]; for (int i = k + 1; i < *m; i++) x[i] -= x[k] * a[i + (size_t)k * *lda]; } } \
        else { for (int k = *m - 1; k >= 0; k--) { if (!unit) x[k] /= a[k + (size_t)k * *lda]; for (int i = 0; i < k; i++) x[i] -= x[k] * a[i + (size_t)k * *lda]; } } \
    }                                                                                                          \
}
REAL_KERNELS(s, float)
REAL_KERNELS(d, double)

#define CMUL(T, R, x, y) do { T t_; t_.r = (x).r * (y).r - (x).i * (y).i; t_.i = (x).r * (y).i + (x).i * (y).r; R = t_; } while (0)
#define CPLX_KERNELS(P, T, F)                                                                                  \
/* Smith's algorithm, as c_div / z_div of the library: |y|^2 is never formed, so tiny or huge divisors neither underflow nor overflow */ \
static T P##div(T x, T y) { T q; F ar = y.r < 0 ? -y.r : y.r, ai = y.i < 0 ? -y.i : y.i, ratio, den;                \
    if (ar <= ai) { ratio = y.r / y.i; den = y.i * (1 + ratio * ratio); q.r = (x.r * ratio + x.i) / den; q.i = (x.i * ratio - x.r) / den; } \
    else { ratio = y.i / y.r; den = y.r * (1 + ratio * ratio); q.r = (x.r + x.i * ratio) / den; q.i = (x.i - x.r * ratio) / den; } \
    return q; } \
void P##gemm_(const char *ta, const char *tb, const int *m, const int *n, const int *k, const T *alpha,       \
              const T *a, const int *lda, const T *b, const int *ldb, const T *beta, T *c, const int *ldc) {  \
    if ((*ta != 'N' && *ta != 'n') || (*tb != 'N' && *tb != 'n')) { fprintf(stderr, "blas3_ref: unsupported gemm\n"); abort(); } \
    for (int j = 0; j < *n; j++) for (int i = 0; i < *m; i++) {                                                \
        T s = {0, 0}, p, q;                                                                                    \
        for (int l = 0; l < *k; l++) { CMUL(T, p, a[i + (size_t)l * *lda], b[l + (size_t)j * *ldb]); s.r += p.r; s.i += p.i; } \
        CMUL(T, p, *alpha, s);                                                                                 \
        if (beta->r == 0 && beta->i == 0) { q.r = 0; q.i = 0; } else CMUL(T, q, *beta, c[i + (size_t)j * *ldc]); \
        c[i + (size_t)j * *ldc].r = p.r + q.r; c[i + (size_t)j * *ldc].i = p.i + q.i;                          \
    }                                                                                                          \
}                                                                                                              \
void P##trsm_(char *side, char *uplo, char *trans, char *diag, int *m, int *n, T *alpha, T *a, int *lda, T *b, int *ldb) { \
    if ((*side != 'L' && *side != 'l') || (*trans != 'N' && *trans != 'n')) { fprintf(stderr, "blas3_ref: unsupported trsm\n"); abort(); } \
    int lower = (*uplo == 'L' || *uplo == 'l'), unit = (*diag == 'U' || *diag == 'u');                          \
    for (int j = 0; j < *n; j++) {                                                                             \
        T *x = b + (size_t)j * *ldb, p;                                                                        \
        for (int i = 0; i < *m; i++) { CMUL(T, p, *alpha, x[i]); x[i] = p; }                                    \
        if (lower) { for (int k = 0; k < *m; k++) { if (!unit) x[k] = P##div(x[k], a[k + (size_t)k * *lda]); for (int i = k + 1; i < *m; i++) { CMUL(T, p, x[k], a[i + (size_t)k * *lda]); x[i].r -= p.r; x[i].i -= p.i; } } } \
        else { for (int k = *m - 1; k >= 0; k--) { if (!unit) x[k] = P##div(x[k], a[k + (size_t)k * *lda]); for (int i = 0; i < k; i++) { CMUL(T, p, x[k], a[i + (size_t)k * *lda]); x[i].r -= p.r; x[i].i -= p.i; } } } \
    }                                                                                                          \
}
CPLX_KERNELS(c, scx, float)
CPLX_KERNELS(z, dcx, double)

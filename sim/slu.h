// Typed view of the four precision families of the SuperLU C API (real library code; nothing stubbed here).
#pragma once
#include <utility>
#include <cmath>
#include <cfloat>
extern "C" {
#include "slu_sdefs.h"
#include "slu_ddefs.h"
#include "slu_cdefs.h"
#include "slu_zdefs.h"
}
typedef long long int fptr;
extern "C" {
void print_options(const superlu_options_t *options);      // SRC/util.c, not in a public header
void print_ilu_options(const superlu_options_t *options);
void c_fortran_sgssv_(int *iopt, int *n, int_t *nnz, int *nrhs, float *values, int_t *rowind, int_t *colptr, float *b, int *ldb, fptr *f, int_t *info);
void c_fortran_dgssv_(int *iopt, int *n, int_t *nnz, int *nrhs, double *values, int_t *rowind, int_t *colptr, double *b, int *ldb, fptr *f, int_t *info);
void c_fortran_cgssv_(int *iopt, int *n, int_t *nnz, int *nrhs, singlecomplex *values, int_t *rowind, int_t *colptr, singlecomplex *b, int *ldb, fptr *f, int_t *info);
void c_fortran_zgssv_(int *iopt, int *n, int_t *nnz, int *nrhs, doublecomplex *values, int_t *rowind, int_t *colptr, doublecomplex *b, int *ldb, fptr *f, int_t *info);
}

typedef long double ld;

template <class S> struct ScalarOps;
template <> struct ScalarOps<float> {
    static float make(double re, double) { return (float)re; }
    static ld re(float v) { return v; } static ld im(float) { return 0; }
};
template <> struct ScalarOps<double> {
    static double make(double re, double) { return re; }
    static ld re(double v) { return v; } static ld im(double) { return 0; }
};
template <> struct ScalarOps<singlecomplex> {
    static singlecomplex make(double re, double im) { singlecomplex c; c.r = (float)re; c.i = (float)im; return c; }
    static ld re(singlecomplex v) { return v.r; } static ld im(singlecomplex v) { return v.i; }
};
template <> struct ScalarOps<doublecomplex> {
    static doublecomplex make(double re, double im) { doublecomplex c; c.r = re; c.i = im; return c; }
    static ld re(doublecomplex v) { return v.r; } static ld im(doublecomplex v) { return v.i; }
};

#define SLU_FWD(name, fn) \
    template <class... A> static auto name(A &&...a) -> decltype(fn(std::forward<A>(a)...)) { return fn(std::forward<A>(a)...); }

#define SLU_KIND(NAME, p, SCALAR, REAL, DTYPE, CPLX, LETTER)                         \
    struct NAME {                                                                    \
        typedef SCALAR scalar;                                                       \
        typedef REAL real;                                                           \
        static constexpr Dtype_t dtype = DTYPE;                                      \
        static constexpr bool cplx = CPLX;                                           \
        static constexpr char letter = LETTER;                                       \
        static double eps() { return sizeof(REAL) == 4 ? (double)FLT_EPSILON * 0.5 : DBL_EPSILON * 0.5; } \
        static double tiny() { return sizeof(REAL) == 4 ? (double)FLT_MIN : DBL_MIN; } \
        SLU_FWD(gssv, p##gssv)                                                       \
        SLU_FWD(gssvx, p##gssvx)                                                     \
        SLU_FWD(gsisx, p##gsisx)                                                     \
        SLU_FWD(gstrf, p##gstrf)                                                     \
        SLU_FWD(gsitrf, p##gsitrf)                                                   \
        SLU_FWD(gstrs, p##gstrs)                                                     \
        SLU_FWD(gsrfs, p##gsrfs)                                                     \
        SLU_FWD(gscon, p##gscon)                                                     \
        SLU_FWD(gsequ, p##gsequ)                                                     \
        SLU_FWD(laqgs, p##laqgs)                                                     \
        SLU_FWD(langs, p##langs)                                                     \
        SLU_FWD(PivotGrowth, p##PivotGrowth)                                         \
        SLU_FWD(QuerySpace, p##QuerySpace)                                           \
        SLU_FWD(ilu_QuerySpace, ilu_##p##QuerySpace)                                 \
        SLU_FWD(Create_CompCol_Matrix, p##Create_CompCol_Matrix)                     \
        SLU_FWD(Create_CompRow_Matrix, p##Create_CompRow_Matrix)                     \
        SLU_FWD(Create_Dense_Matrix, p##Create_Dense_Matrix)                         \
        SLU_FWD(Copy_CompCol_Matrix, p##Copy_CompCol_Matrix)                         \
        SLU_FWD(readhb, p##readhb)                                                   \
        SLU_FWD(readrb, p##readrb)                                                   \
        SLU_FWD(readMM, p##readMM)                                                   \
        SLU_FWD(readtriple, p##readtriple)                                           \
        SLU_FWD(ldperm, p##ldperm)                                                   \
        SLU_FWD(sp_gemv, sp_##p##gemv)                                               \
        SLU_FWD(sp_trsv, sp_##p##trsv)                                               \
        SLU_FWD(bridge, c_fortran_##p##gssv_)                                        \
        SLU_FWD(CompRow_to_CompCol, p##CompRow_to_CompCol)                           \
        SLU_FWD(Copy_Dense_Matrix, p##Copy_Dense_Matrix)                             \
        SLU_FWD(GenXtrue, p##GenXtrue)                                               \
        SLU_FWD(FillRHS, p##FillRHS)                                                 \
        SLU_FWD(inf_norm_error, p##inf_norm_error)                                   \
        SLU_FWD(sp_gemm, sp_##p##gemm)                                               \
        SLU_FWD(Print_CompCol_Matrix, p##Print_CompCol_Matrix)                       \
        SLU_FWD(Print_SuperNode_Matrix, p##Print_SuperNode_Matrix)                   \
        SLU_FWD(Print_Dense_Matrix, p##Print_Dense_Matrix)                           \
    };

extern "C" {
extern float slangs(char *, SuperMatrix *);
extern double dlangs(char *, SuperMatrix *);
extern float clangs(char *, SuperMatrix *);
extern double zlangs(char *, SuperMatrix *);
}

SLU_KIND(KS, s, float, float, SLU_S, false, 's')
SLU_KIND(KD, d, double, double, SLU_D, false, 'd')
SLU_KIND(KC, c, singlecomplex, float, SLU_C, true, 'c')
SLU_KIND(KZ, z, doublecomplex, double, SLU_Z, true, 'z')

// dispatch a generic lambda-like functor on a dtype letter
template <class F> auto dispatch_kind(char letter, F &&f) {
    switch (letter) {
    case 's': return f(KS{});
    case 'c': return f(KC{});
    case 'z': return f(KZ{});
    default: return f(KD{});
    }
}

/* Force-included (-include) into every SuperLU/CBLAS/FORTRAN translation unit of the
 * instrumented builds.  Together with -DUSER_MALLOC=... -DUSER_FREE=... -DUSER_ABORT=...
 * (honoured by the #ifndef guards in SRC/slu_util.h) this routes every heap request and
 * every fatal error of the library through the simulator.  Nothing in /repo is edited. */
#ifndef SIM_HOOKS_H
#define SIM_HOOKS_H
#include <stddef.h>
#ifdef __cplusplus
extern "C" {
#endif
void *sim_malloc(size_t size, const char *file, const char *func, int line);
void sim_free(void *p, const char *file, const char *func, int line);
void sim_abort(const char *msg);
#ifdef __cplusplus
}
#endif
#endif

// simworker: in-process loop over run indices (no fork per run), one flushed result line per run.
#include <cmath>
#include <cstdio>
#include <cstdlib>
#include <cstring>
#include <fstream>
#include <sstream>
#include <string>
#include <unistd.h>
#include <sys/time.h>
#include "props.h"
#include "simrt.h"

extern "C" void __sanitizer_set_report_fd(void *fd);
#if defined(__has_feature)
#if __has_feature(address_sanitizer) || __has_feature(thread_sanitizer)
#define HAVE_SAN 1
#endif
#endif

static FILE *g_res = nullptr;
// The library calls exit() from a few places (z_div/c_div on a zero divisor, readers, bridge): report it as an outcome.
extern __thread char g_cur_op_kind[32];
extern "C" void __sanitizer_set_death_callback(void (*cb)(void));
static int g_resfd = -1;
static void on_exit_handler() {
    TaskCtx *t = g_task;
    if (g_res && t && t->escape) { fprintf(g_res, "X library called exit() inside an API call op:%s\n", g_cur_op_kind); fflush(g_res); }
}
extern int g_death_fd;                 // sched_nosan.cpp: the death callback lives in the un-instrumented TU
extern "C" void sim_death_callback(void);

static std::string outcome_json(const RunOutcome &o, const std::string &casepath) {
    std::ostringstream s;
    s << "{\"hash\":\"" << std::hex << o.hash << std::dec << "\",\"nontrivial\":" << (o.nontrivial ? "true" : "false") << ",\"dkey\":" << json_escape(o.distinct_key)
      << ",\"violations\":[";
    for (size_t i = 0; i < o.violations.size(); i++) {
        if (i) s << ",";
        s << "{\"oracle\":" << json_escape(o.violations[i].oracle) << ",\"detail\":" << json_escape(o.violations[i].detail) << ",\"key\":" << json_escape(o.violations[i].key) << "}";
    }
    s << "],\"stats\":{";
    bool first = true;
    for (auto &kv : o.stats) { if (!first) s << ","; first = false; double v = kv.second; if (!(v == v)) v = -1; else if (v > 1e300) v = 1e300; else if (v < -1e300) v = -1e300; s << json_escape(kv.first) << ":" << v; }
    s << "}";
    if (!o.sample.empty()) s << ",\"sample\":" << o.sample;
    if (!casepath.empty()) s << ",\"case\":" << json_escape(casepath);
    s << "}";
    return s.str();
}

static bool read_file(const std::string &p, std::string &out) { std::ifstream f(p); if (!f) return false; std::stringstream ss; ss << f.rdbuf(); out = ss.str(); return true; }

int main(int argc, char **argv) {
    std::string prop, replay, outdir = ".", inflight, emit_path;
    uint64_t seed = 1; long from = 0, count = 1; bool thorough = false, twice = false, emit = false; int sample_every = 0;
    for (int i = 1; i < argc; i++) {
        std::string a = argv[i];
        auto next = [&]() { return std::string(i + 1 < argc ? argv[++i] : ""); };
        if (a == "--seed") seed = strtoull(next().c_str(), nullptr, 10);
        else if (a == "--from") from = atol(next().c_str());
        else if (a == "--count") count = atol(next().c_str());
        else if (a == "--thorough") thorough = true;
        else if (a == "--replay") replay = next();
        else if (a == "--outdir") outdir = next();
        else if (a == "--inflight") inflight = next();
        else if (a == "--twice") twice = true;          // execute every case twice and compare event hashes (determinism gate)
        else if (a == "--emit") { emit = true; emit_path = next(); }
        else if (a == "--sample-every") sample_every = atoi(next().c_str());
        else if (a[0] != '-') prop = a;
    }
    // results on a private descriptor; the library's own chatter on stdout/stderr goes to /dev/null
    int resfd = dup(1); g_res = fdopen(resfd, "w"); g_resfd = resfd;
    atexit(on_exit_handler);
#ifdef HAVE_SAN
    g_death_fd = resfd;
    __sanitizer_set_death_callback(sim_death_callback);
#endif
    int errfd = dup(2);
    if (!getenv("SIM_KEEP_STDIO")) { freopen("/dev/null", "w", stdout); freopen("/dev/null", "w", stderr); }
#ifdef HAVE_SAN
    __sanitizer_set_report_fd((void *)(intptr_t)errfd);
#endif
    (void)errfd;
    GenCfg g; g.thorough = thorough; g.variant = SIM_VARIANT;
    if (!replay.empty()) {
        std::string text, err; Case c;
        if (!read_file(replay, text) || !case_from_json(text, c, err)) { fprintf(g_res, "E cannot read case: %s\n", err.c_str()); fflush(g_res); return 2; }
        extern bool g_force_user_workspace;
        if (c.note.find("force-user") != std::string::npos) g_force_user_workspace = true;
        RunOutcome o = execute_case(c);
        if (twice) { RunOutcome o2 = execute_case(c); if (o2.hash != o.hash) { fprintf(g_res, "E nondeterministic replay %llx vs %llx\n", (unsigned long long)o.hash, (unsigned long long)o2.hash); fflush(g_res); return 2; } }
        fprintf(g_res, "R -1 %s\n", outcome_json(o, replay).c_str()); fflush(g_res);
        if (const char *cd = getenv("SIM_COV_DUMP")) cov_dump(cd);
        return o.violations.empty() ? 0 : 1;
    }
    if (prop.empty()) { fprintf(g_res, "E no property\n"); return 2; }
    int nviol = 0;
    for (long idx = from; idx < from + count; idx++) {
        fprintf(g_res, "S %ld\n", idx); fflush(g_res);
        Case c = generate_case(prop, seed, idx, g, inflight.empty() ? nullptr : inflight.c_str());
        if (emit) { std::ofstream f(emit_path); f << case_to_json(c); continue; }
        if (!inflight.empty()) write_inflight(inflight.c_str(), c);
        RunOutcome o = execute_case(c);
        if (twice) {
            RunOutcome o2 = execute_case(c);
            if (o2.hash != o.hash) o.violations.push_back({"nondeterminism", "event-log hash differs between two executions of the same case", "MACHINERY|nondeterminism"});
            if (!o.schedule.empty()) { // and once more from the recorded schedule: replay must reproduce the run exactly
                Case cr = c; cr.schedule = o.schedule;
                RunOutcome o3 = execute_case(cr);
                if (o3.hash != o.hash) o.violations.push_back({"replay-divergence", "replaying the recorded schedule gives a different event log", "MACHINERY|replay-divergence"});
            }
        }
        std::string casepath;
        if (!o.violations.empty()) {
            nviol++;
            casepath = outdir + "/cand-" + prop + "-" + std::to_string(seed) + "-" + std::to_string(idx) + ".json";
            if (!o.schedule.empty()) { c.schedule = o.schedule; }
            if (c.property == "C08") {
                c.envs = o.failing_envs; c.note = "only:envs";
                if (o.query_failed) c.note += " query";
            }
            std::ofstream f(casepath); f << case_to_json(c);
        }
        fprintf(g_res, "R %ld %s\n", idx, outcome_json(o, casepath).c_str()); fflush(g_res);
    }
    fprintf(g_res, "D %u %u\n", cov_count_hit(), cov_num_guards()); fflush(g_res);
    if (const char *cd = getenv("SIM_COV_DUMP")) cov_dump(cd);
    return nviol ? 1 : 0;
}

// C09 - calls are re-entrant, thread-safe and deterministic.
// 2-4 real threads, each with its own plan on its own data, run under the seeded serialising scheduler with
// pre-emption at basic-block edges; every output is compared bit for bit with the same plan executed alone.
// Under the TSan variant the scheduler's baton is invisible to ThreadSanitizer, so any conflicting access of two
// tasks to library state is reported whatever the interleaving.  Plus: history independence in one thread.
#include "gen_common.h"

static ExecCfg c09_cfg() {
    ExecCfg c; c.chk_structure = true; c.chk_identity = false; c.chk_residual = false; c.chk_resolve_pure = false; c.capture = true; c.capture_clock = true;
    c.op_budget = 100000000ULL;
    return c;
}

static TaskPlan gen_task(Rng &r, bool thorough, char force_dtype = 0) {
    TaskPlan t; t.dtype = gen_dtype(r); if (force_dtype) t.dtype = force_dtype; bool cplx = (t.dtype == 'c' || t.dtype == 'z');
    gen_tuning(r, t.tuning, r.chance(0.4));
    t.garbage = G_ZERO;
    int nmax = thorough ? (r.chance(0.1) ? 90 : 45) : 26;
    t.mats.push_back(gen_matrix(r, 2, nmax, false, cplx));
    t.mats.push_back(gen_matrix(r, 2, std::max(4, nmax / 2), true, cplx));
    Op nw; nw.kind = "new"; nw.mat = 0; nw.storage = r.chance(0.15) ? 1 : 0; t.ops.push_back(nw);
    int nops = r.range(1, 3);
    for (int i = 0; i < nops; i++) {
        double u = r.unit(); Op o; gen_options(r, o, true, cplx);
        if (u < 0.15) o.kind = "gssv";
        else if (u < 0.45) {
            o.kind = "gssvx"; o.fact = DOFACT; if (r.chance(0.3)) { o.lwork = ample_lwork(t.mats[0], t.tuning, t.tuning[5], cplx); o.align = r.chance(0.5) ? 4 : 0; }
            // a tenth of the library-allocation calls run out of factor storage half way (persisting allocation failure from the k-th
            // growth request on; derived from the call's own seed): the out-of-space exits are calls like any other
            if (o.lwork == 0 && (o.rhs_seed >> 36) % 10 == 0) { FaultSpec f; f.k = 2 + (int)((o.rhs_seed >> 40) % 8); f.persist = true; o.faults.push_back(f); }
            t.ops.push_back(o);
            if (r.chance(0.5)) { Op q = o; static const int fm[] = {SamePattern, SamePattern_SameRowPerm, FACTORED}; q.fact = fm[r.below(3)]; q.rhs_seed = r.next(); q.trans = r.chance(0.5) ? NOTRANS : TRANS; q.refine = SLU_DOUBLE; q.condnum = 1; t.ops.push_back(q); }
            continue;
        } else if (u < 0.65) { o.kind = "pipe"; o.stages = 1 | (r.chance(0.7) ? 2 : 0) | (r.chance(0.7) ? 4 : 0) | (r.chance(0.5) ? 8 : 0); o.equil = 0; if (o.nrhs == 0) o.nrhs = 1; }
        else if (u < 0.72) { o.kind = "equil"; }
        else if (u < 0.90) { o.kind = "gsisx"; o.fact = DOFACT; gen_ilu_options(r, o); if (r.chance(0.7)) o.rowperm = LargeDiag_MC64; }
        else { // Fortran bridge
            Op f; f.kind = "bfactor"; f.handle = 0; f.mat = 0; t.ops.push_back(f);
            Op sv; sv.kind = "bsolve"; sv.handle = 0; sv.nrhs = r.range(1, 2); sv.rhs_seed = r.next(); t.ops.push_back(sv);
            Op fr; fr.kind = "bfree"; fr.handle = 0; t.ops.push_back(fr);
            continue;
        }
        t.ops.push_back(o);
    }
    if (r.chance(0.2)) { Op n2; n2.kind = "new"; n2.slot = 1; n2.mat = 1; t.ops.push_back(n2); Op o; gen_options(r, o, false, cplx); o.kind = "pipe"; o.slot = 1; o.stages = 0; o.equil = 0; t.ops.push_back(o); }
    { // stand-alone utilities (conversion, copies, sparse product, printing, MC64 with every job) somewhere in the task;
      // own stream, derived from the task drawn so far, so that the tasks themselves stay what they were
        uint64_t vb = 0; memcpy(&vb, &t.mats[0].re[0], sizeof vb);
        Rng ru(mix3(0x0909, (uint64_t)t.mats[0].nnz() * 1315423911ULL + t.ops.size(), vb));
        if (ru.chance(0.25)) {
            Op u; u.kind = "util"; u.slot = 0; u.stages = 1 + (int)ru.below(63); u.nrhs = ru.range(1, 3); u.ldpad = ru.chance(0.4) ? 2 : 0;
            u.trans = ru.chance(0.5) ? TRANS : NOTRANS; u.rhs_seed = ru.next();
            u.stages |= ((u.rhs_seed >> 20) & 1 ? 64 : 0) | ((u.rhs_seed >> 21) & 1 ? 128 : 0);
            t.ops.insert(t.ops.begin() + 1 + (size_t)ru.below(t.ops.size()), u);
        }
    }
    { // a fifth of the column-stored matrices are created through a FILE*-based reader (Harwell-Boeing or Matrix Market text fed from
      // memory), so that several readers run at the same time too; own stream again
        uint64_t vb = 0; memcpy(&vb, &t.mats[0].re[0], sizeof vb);
        Rng rr(mix3(0x0990, (uint64_t)t.mats[0].nnz() * 2654435761ULL + t.ops.size(), vb));
        if (t.ops[0].kind == "new" && t.ops[0].storage == 0 && t.mats[0].m == t.mats[0].n && rr.chance(0.2)) {
            t.ops[0].reader = rr.chance(0.5) ? "hb" : "mm"; t.ops[0].rfmt = (int)rr.below(32); t.ops[0].rbase0 = rr.chance(0.3) ? 1 : 0;
        }
    }
    Op d; d.kind = "destroy"; t.ops.push_back(d); Op d1; d1.kind = "destroy"; d1.slot = 1; t.ops.push_back(d1);
    return t;
}

Case gen_C09(uint64_t seed, long run, const GenCfg &g, const char *inflight) {
    Rng r(mix3(seed, 9, (uint64_t)run));
    Case c; c.property = "C09"; c.seed = seed; c.run = run; c.variant = g.variant;
    bool history_mode = r.chance(0.2);
    int nt = history_mode ? r.range(2, 5) : r.range(2, g.thorough ? 6 : 4);
    // 35 % of the runs are homogeneous (all tasks use the same precision): more tasks inside the very same routines at the same time
    char same = r.chance(0.35) ? gen_dtype(r) : 0;
    for (int i = 0; i < nt; i++) c.tasks.push_back(gen_task(r, g.thorough, same));
    c.sched_seed = r.next();
    // "same routine at the same time": in 15 % of the concurrent runs (own stream) every task is the same precision and runs the same
    // kind of call - incomplete LU with a tight fill quota (secondary dropping, quick-select / interpolation), or the expert driver with
    // refinement and condition estimate, or the pipeline - so that rarely taken branches are occupied by two tasks at once
    {
        Rng rh(mix3(seed, 0x0909F0C5, (uint64_t)run));
        if (!history_mode && rh.chance(0.15)) {
            char dt = gen_dtype(rh); bool cplx = (dt == 'c' || dt == 'z'); int focus = (int)rh.below(4);
            for (auto &t : c.tasks) {
                TaskPlan q; q.dtype = dt; for (int k = 0; k < 7; k++) q.tuning[k] = t.tuning[k]; q.garbage = G_ZERO;
                int nmax = g.thorough ? 60 : 32;
                q.mats.push_back(gen_matrix(rh, 8, nmax, false, cplx)); q.mats.push_back(q.mats[0]);
                Op nw; nw.kind = "new"; nw.mat = 0; q.ops.push_back(nw);
                Op o; gen_options(rh, o, true, cplx);
                if (focus <= 1) { o.kind = "gsisx"; o.fact = DOFACT; gen_ilu_options(rh, o);
                    static const int rules[] = {DROP_BASIC | DROP_AREA, DROP_BASIC | DROP_AREA | DROP_DYNAMIC, DROP_BASIC | DROP_PROWS, DROP_BASIC | DROP_COLUMN | DROP_INTERP, DROP_BASIC | DROP_AREA | DROP_INTERP};
                    o.droprule = rules[rh.below(5)]; o.fillfactor = rh.chance(0.5) ? 1.5 : 2.0; o.droptol = rh.chance(0.5) ? 1e-4 : 1e-8; if (rh.chance(0.5)) o.rowperm = NOROWPERM; }
                else if (focus == 2) { o.kind = "gssvx"; o.fact = DOFACT; o.refine = SLU_DOUBLE; o.condnum = 1; o.pivgrowth = 1; o.equil = 1; if (o.nrhs == 0) o.nrhs = 2; }
                else { o.kind = "pipe"; o.stages = 15; o.equil = 0; if (o.nrhs == 0) o.nrhs = 1; }
                q.ops.push_back(o);
                Op d; d.kind = "destroy"; q.ops.push_back(d); Op d1; d1.kind = "destroy"; d1.slot = 1; q.ops.push_back(d1);
                t = q;
            }
            c.note = "focus";
        }
    }
    double u = r.unit();
    c.sched_mode = u < 0.75 ? SM_SLICES : SM_PCT;
    // slice-length mixture drawn per run: fine (inner-loop interleavings), medium, coarse (call-level orders)
    double a = r.unit(), b = r.unit(), cc = r.unit(), d = r.unit() * 0.5, sum = a + b + cc + d;
    c.w_fine = a / sum; c.w_mid = b / sum; c.w_coarse = cc / sum; c.pct_d = r.range(1, 3);
    { static const uint64_t sp[] = {20000, 100000, 400000, 1500000}; c.pct_span = sp[r.below(4)]; }
    if (history_mode) { c.note = "history"; c.prior_plans = 1 + (int)r.below(G_NUM - 1); } // dirty garbage mode for the history run
    if (inflight) write_inflight(inflight, c);
    return c;
}

RunOutcome exec_C09(const Case &c) {
    RunOutcome out; if (c.tasks.empty()) return out;
    Hash64 h; int nt = (int)c.tasks.size();
    bool history = (c.note == "history");
    // ---- concurrent phase FIRST: in a fresh process the tasks' very first library calls then happen on different threads,
    //      so one-time initialisation of hidden static state is exercised concurrently too (the solo runs come afterwards) ----
    ConcurrentResult cr;
    if (!history) {
        SchedConfig sc; sc.mode = c.sched_mode; sc.seed = c.sched_seed; sc.w_fine = c.w_fine; sc.w_mid = c.w_mid; sc.w_coarse = c.w_coarse; sc.pct_d = c.pct_d; sc.total_steps_hint = c.pct_span;
        if (!c.schedule.empty()) { sc.mode = SM_REPLAY; sc.replay = c.schedule.data(); sc.nreplay = (int)c.schedule.size(); }
        cr = run_plans_concurrent(c.tasks, c09_cfg(), sc);
        out.schedule = cr.sched.slices;
    }
    // ---- solo phase: every plan alone, scheduler off ----
    std::vector<PlanRun> solo(nt);
    bool singular = false, inconclusive = false; uint64_t total = 0;
    for (int i = 0; i < nt; i++) {
        solo[i] = run_plan_single(c.tasks[i], c09_cfg());
        h.u64(solo[i].evhash); total += solo[i].steps;
        for (size_t k = 0; k < solo[i].trace.size(); k++) {
            const OpResult &r = solo[i].trace[k];
            if (r.cls == XC_SINGULAR) singular = true;
            if (r.escaped == ESC_HANG) inconclusive = true;
            for (auto &v : r.violations) { size_t bar = v.find('|'); std::string orc = v.substr(0, bar); if (orc == "hang") continue;
                out.violations.push_back({orc, "solo run of task " + std::to_string(i) + " op " + std::to_string(k) + " (" + op_brief(c.tasks[i].ops[k]) + "): " + v.substr(bar + 1), "C09|solo-" + orc + "|" + c.tasks[i].ops[k].kind}); }
        }
    }
    out.stats["sim_edges"] += (double)total;
    if (inconclusive) { out.stats["runs_inconclusive_hang"] += 1; out.hash = h.h; out.schedule.clear(); return out; }
    std::ostringstream s;
    s << "{\"tasks\":[";
    for (int i = 0; i < nt; i++) { s << (i ? "," : "") << "\"" << c.tasks[i].dtype << ":"; for (auto &o : c.tasks[i].ops) if (o.kind != "new" && o.kind != "destroy") s << op_brief(o) << " "; s << "\""; }
    s << "]";
    if (history) {
        // ---- history independence: the plans one after the other in one thread, under dirty fresh heap AND workspace memory ----
        out.stats["history_runs"] += 1;
        // a plan with an exactly-zero pivot (recorded finding KF1): growable factor arrays and caller workspaces stay zeroed, all other fresh blocks are dirty
        if (singular) out.stats["dirty_pass_factor_arrays_clean"] += 1;
        std::vector<TaskPlan> dirty = c.tasks;
        for (auto &t : dirty) for (auto &o : t.ops) o.wsgarbage = singular ? (int)G_ZERO : c.prior_plans;
        std::vector<PlanRun> seq = run_plans_sequential(dirty, c09_cfg(), c.prior_plans | (singular ? G_CLEAN_GROWTH : 0));
        out.stats[std::string("garbage_") + kGarbageName[c.prior_plans]] += 1;
        for (int i = 0; i < nt; i++) {
            h.u64(seq[i].evhash);
            for (size_t k = 0; k < seq[i].trace.size() && k < solo[i].trace.size(); k++) {
                for (auto &v : seq[i].trace[k].violations) { size_t bar = v.find('|'); out.violations.push_back({v.substr(0, bar), "history run, plan " + std::to_string(i) + " op " + std::to_string(k) + ": " + v.substr(bar + 1), "C09|history-" + v.substr(0, bar) + "|" + c.tasks[i].ops[k].kind}); }
                // the simulated clock is absolute per task context, so elapsed times of a later plan round differently: not compared here
                std::string df = snap_diff(solo[i].trace[k].snap, seq[i].trace[k].snap, {"utime"});
                if (!df.empty()) { out.violations.push_back({"history-dependence", "plan " + std::to_string(i) + " op " + std::to_string(k) + " (" + op_brief(c.tasks[i].ops[k]) + "): field " + df + " differs when the call is preceded by " + std::to_string(i) + " unrelated plans under '" + kGarbageName[c.prior_plans] + "' fresh memory", "C09|history-dependence|" + c.tasks[i].ops[k].kind}); break; }
            }
        }
        out.hash = h.h; out.nontrivial = nt >= 2;
        { Hash64 k; k.u64(h.h); out.distinct_key = "H" + std::to_string(k.h); }
        s << ",\"mode\":\"history under " << kGarbageName[c.prior_plans] << " fresh memory\"}"; out.sample = s.str();
        return out;
    }
    // ---- compare the concurrent run with the solo runs ----
    out.stats["concurrent_runs"] += 1; out.stats["tasks"] += nt; if (c.note == "focus") out.stats["concurrent_runs_same_call_focus"] += 1;
    out.stats["preempt_switches"] += (double)cr.sched.switches; out.stats["preempt_switches_in_library"] += (double)cr.sched.switches_in_library;
    out.stats["max_switches_per_run"] = (double)cr.sched.switches;
    out.stats[c.sched_mode == SM_PCT ? "sched_pct_runs" : "sched_slice_runs"] += 1;
    h.u64(cr.sched.interleaving_hash);
    uint64_t ctotal = 0;
    for (int i = 0; i < nt; i++) {
        h.u64(cr.runs[i].evhash); ctotal += cr.runs[i].steps;
        for (size_t k = 0; k < cr.runs[i].trace.size() && k < solo[i].trace.size(); k++) {
            for (auto &v : cr.runs[i].trace[k].violations) { size_t bar = v.find('|'); if (v.substr(0, bar) == "hang") continue; out.violations.push_back({v.substr(0, bar), "concurrent run, task " + std::to_string(i) + " op " + std::to_string(k) + ": " + v.substr(bar + 1), "C09|concurrent-" + v.substr(0, bar) + "|" + c.tasks[i].ops[k].kind}); }
            std::string df = snap_diff(solo[i].trace[k].snap, cr.runs[i].trace[k].snap);
            if (!df.empty()) { out.violations.push_back({"solo-vs-concurrent", "task " + std::to_string(i) + " (" + std::string(1, c.tasks[i].dtype) + ") op " + std::to_string(k) + " (" + op_brief(c.tasks[i].ops[k]) + "): field " + df + " differs from the same call executed alone (" + std::to_string(cr.sched.switches) + " context switches)", "C09|solo-vs-concurrent|" + c.tasks[i].ops[k].kind}); break; }
        }
        if (cr.runs[i].evhash != solo[i].evhash) out.stats["tasks_with_different_event_log"] += 1;
    }
    out.stats["sim_edges"] += (double)ctotal;
    out.hash = h.h;
    out.nontrivial = nt >= 2 && cr.sched.switches_in_library >= 1;
    out.distinct_key = std::to_string(cr.sched.interleaving_hash);
    s << ",\"mode\":\"" << (c.sched_mode == SM_PCT ? "pct" : "slices") << "\",\"switches\":" << cr.sched.switches << ",\"switches_in_library\":" << cr.sched.switches_in_library << ",\"schedule_prefix\":\"";
    for (size_t i = 0; i < cr.sched.slices.size() && i < 8; i++) s << "t" << cr.sched.slices[i].task << "x" << cr.sched.slices[i].edges << " ";
    s << "\"}";
    out.sample = s.str();
    return out;
}

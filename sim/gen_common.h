// Shared pieces of the per-property generators.
#pragma once
#include <sstream>
#include "case.h"
#include "props.h"
#include "runplan.h"

static inline char gen_dtype(Rng &r) { static const char t[] = {'d', 'd', 's', 'c', 'z', 'z'}; return t[r.below(6)]; }

// swarm-style tuning vector: small values make blocking / relaxed-supernode / multi-supernode paths fire at n <= 60
static inline void gen_tuning(Rng &r, int t[7], bool small_fill) {
    t[0] = r.range(1, 12);                                // panel size
    t[2] = r.range(1, 24);                                // max supernode
    t[6] = r.range(1, 16);                                // ILU max supernode
    t[1] = r.range(1, std::max(1, std::min(t[2], t[6]))); // relax <= maxsuper
    t[3] = r.range(1, 24);                                // row block
    t[4] = r.range(1, 24);                                // col block
    t[5] = small_fill ? r.range(1, 4) : r.range(1, 30);   // fill estimate
    if (r.chance(0.15)) { t[0] = 20; t[1] = 10; t[2] = 200; t[3] = 200; t[4] = 100; t[6] = 10; } // shipped defaults
}

static inline void gen_options(Rng &r, Op &o, bool square, bool cplx) {
    static const int cps[] = {NATURAL, MMD_ATA, MMD_AT_PLUS_A, COLAMD, COLAMD, MY_PERMC};
    o.colperm = cps[r.below(6)];
    if (!square && o.colperm == MMD_AT_PLUS_A) o.colperm = MMD_ATA;
    static const double th[] = {1.0, 0.0, 0.5, 0.1, 0.01, 1e-6}; // 0.0: keep the diagonal / remembered pivot whenever it is non-zero
    o.thresh = th[r.below(6)];
    o.symmode = square && r.chance(0.2);
    if (o.symmode) { o.colperm = MMD_AT_PLUS_A; if (r.chance(0.5)) o.thresh = 0.001; }
    o.equil = r.chance(0.5);
    o.trans = r.chance(0.5) ? NOTRANS : (cplx && r.chance(0.5) ? CONJ : TRANS);
    o.refine = r.chance(0.35) ? (r.chance(0.5) ? SLU_DOUBLE : SLU_SINGLE) : NOREFINE;
    o.pivgrowth = r.chance(0.4); o.condnum = r.chance(0.4);
    o.permc_seed = r.next();
    o.nrhs = r.chance(0.1) ? 0 : r.range(1, 3); o.ldpad = r.chance(0.3) ? r.range(1, 3) : 0; o.rhs_seed = r.next();
    o.ldxpad = (o.rhs_seed & 1) ? -1 : (int)((o.rhs_seed >> 1) % 4); // X gets its own leading dimension (derived, no extra draw)
    if (o.refine == SLU_DOUBLE && (o.rhs_seed & 32)) o.refine = SLU_EXTRA; // all three refinement settings (derived)
}
static inline void gen_ilu_options(Rng &r, Op &o) {
    static const int rules[] = {DROP_BASIC | DROP_AREA, DROP_BASIC, DROP_BASIC | DROP_PROWS, DROP_BASIC | DROP_COLUMN, DROP_BASIC | DROP_AREA | DROP_DYNAMIC,
                                DROP_BASIC | DROP_PROWS | DROP_INTERP, NODROP, DROP_BASIC | DROP_COLUMN | DROP_INTERP | DROP_DYNAMIC};
    o.droprule = rules[r.below(8)];
    static const double tol[] = {1e-4, 1e-2, 0.1, 0.0, 1e-8};
    o.droptol = tol[r.below(5)];
    static const double ff[] = {10.0, 2.0, 1.5, 5.0, 30.0};
    o.fillfactor = ff[r.below(5)];
    o.ilunorm = (int)r.below(3); o.milu = (int)r.below(4);
    static const double ft[] = {1e-2, 1e-4, 0.5};
    o.filltol = ft[r.below(3)];
    o.rowperm = r.chance(0.6) ? LargeDiag_MC64 : NOROWPERM;
    o.thresh = r.chance(0.5) ? 0.1 : (r.chance(0.5) ? 1.0 : 0.01);
    o.refine = NOREFINE; o.symmode = (o.symmode && (o.rhs_seed & 4)) ? 1 : 0; // symmetric mode (ilu_heap_relax_snode) in half of the cases that drew it
    if (o.colperm == MY_PERMC && r.chance(0.5)) o.colperm = COLAMD;
    // the fill factor sizes the initial arrays (fill factor x nnz(A)): half of the ILU calls take it from a fine grid 1.00 .. 3.99
    // (derived from the call's own seed, no extra draw), so that "array exactly full at this column" is met at many different columns
    if ((o.rhs_seed >> 33) & 1) o.fillfactor = 1.0 + (double)((o.rhs_seed >> 34) % 300) / 100.0;
}

static inline std::string op_brief(const Op &o) {
    std::ostringstream s; s << o.kind;
    if (o.kind == "gssvx" || o.kind == "gsisx") s << "(F" << o.fact << ",T" << o.trans << ",E" << o.equil << ",nrhs" << o.nrhs << ",lw" << o.lwork << (o.vchange.empty() ? "" : "," + o.vchange) << (o.faults.empty() ? "" : ",fault") << ")";
    else if (o.kind == "pipe" || o.kind == "ipipe") s << "(F" << o.fact << ",st" << o.stages << ",lw" << o.lwork << ")";
    else if (o.kind == "bfactor" || o.kind == "bsolve" || o.kind == "bfree") s << "(h" << o.handle << ")";
    return s.str();
}
static inline std::string tuning_brief(const int t[7]) { std::ostringstream s; s << "[" << t[0] << "," << t[1] << "," << t[2] << "," << t[3] << "," << t[4] << "," << t[5] << "," << t[6] << "]"; return s.str(); }

// dense upper bound on anything the four growable arrays can ever hold, expressed as a fill estimate
static inline int nogrow_fill(const Mat &A) { long nnz = std::max(1, A.nnz()); long need = 2L * A.m * A.n + 2L * A.n + 16; return (int)((need + nnz - 1) / nnz) + 1; }
// a workspace length that is certainly sufficient for fill estimate `fill` (bytes)
static inline long ample_lwork(const Mat &A, const int tuning[7], int fill, bool cplx) {
    long m = A.m, n = A.n, w = tuning[0], maxsup = std::max(tuning[2], tuning[6]), rowblk = tuning[3];
    long scal = cplx ? 16 : 8;
    long est = (long)fill * std::max(1, A.nnz());
    long dense = 2 * m * n + 2 * n + 64;
    long cap = std::max(est, dense) * 2;
    long temp = (2 * w + 4 + 3 + 8) * m * 8 + (w + 1) * m * scal + std::max(m, (maxsup + rowblk) * w) * scal;
    return (5 * n + 5) * 8 + temp + cap * (8 + 8) + cap * 2 * scal + 4096;
}

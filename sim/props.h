// Per-property workloads: generator (one integer decides everything) + executor + oracles over the recorded trace.
#pragma once
#include <map>
#include <string>
#include <vector>
#include "case.h"

struct Viol { std::string oracle, detail, key; };   // key = stable class used for minimisation and known-findings matching
struct RunOutcome {
    std::vector<Viol> violations;
    uint64_t hash = 0;                       // event-log hash of the run (replay / determinism gate)
    std::map<std::string, double> stats;     // counters, summed over runs by the driver
    std::string sample;                      // one-line JSON description of the case (evidence samples)
    std::string distinct_key; bool nontrivial = false;
    std::vector<SliceRec> schedule;          // schedule actually taken (multi-task properties)
    std::vector<EnvSpec> failing_envs; bool query_failed = false; // C08: what the replay file of a violation has to contain
};
struct GenCfg { bool thorough = false; std::string variant; };

// generate: pure function of (seed, run) and the code; may execute library code (adaptive histories).
// If `inflight` is non-null the case is written there before anything that could kill the process runs.
Case generate_case(const std::string &prop, uint64_t seed, long run, const GenCfg &g, const char *inflight);
RunOutcome execute_case(const Case &c);
void write_inflight(const char *path, const Case &c);

Case gen_C07(uint64_t seed, long run, const GenCfg &g, const char *inflight); RunOutcome exec_C07(const Case &c);
Case gen_C08(uint64_t seed, long run, const GenCfg &g, const char *inflight); RunOutcome exec_C08(const Case &c);
Case gen_C06(uint64_t seed, long run, const GenCfg &g, const char *inflight); RunOutcome exec_C06(const Case &c);
Case gen_C09(uint64_t seed, long run, const GenCfg &g, const char *inflight); RunOutcome exec_C09(const Case &c);
Case gen_C19(uint64_t seed, long run, const GenCfg &g, const char *inflight); RunOutcome exec_C19(const Case &c);
Case gen_C20(uint64_t seed, long run, const GenCfg &g, const char *inflight); RunOutcome exec_C20(const Case &c);

// C20 - Fortran-callable bridge: factor once, solve many, free all.
// Simulated Fortran clients (1-3 threads as in FORTRAN/test_omp.F), each owning 1-3 handles, issue factor / solve* / free
// in any legal interleaving; reference model = the C simple driver on the same matrix (kept per handle by the executor).
#include "gen_common.h"

static ExecCfg c20_cfg() {
    ExecCfg c; c.chk_structure = true; c.chk_identity = false; c.chk_residual = true; c.chk_resolve_pure = false; c.capture = true; c.bridge_model = true;
    c.op_budget = 100000000ULL;
    return c;
}

static TaskPlan gen_client(Rng &r, bool thorough) {
    TaskPlan t; static const char ty[] = {'d', 'd', 'z', 'z', 's', 'c'}; t.dtype = ty[r.below(6)]; bool cplx = (t.dtype == 'c' || t.dtype == 'z');
    gen_tuning(r, t.tuning, r.chance(0.4));
    t.garbage = G_ZERO;
    int nh = r.range(1, 3); int nmax = thorough ? 50 : 24;
    for (int h = 0; h < nh; h++) {
        std::string fam = kFamilies[r.below(sizeof(kFamilies) / sizeof(kFamilies[0]))];
        int n = fam == "tiny" ? r.range(1, 3) : r.range(2, nmax);
        Mat A = gen_pattern(r, n, n, fam); gen_values(r, A, "dominant", cplx); A.family = fam + "/dominant"; // nonsingular, modest growth
        // compressed-column storage does not require sorted row indices inside a column: a third of the matrices come unsorted (own stream)
        { Hash64 hp; hp.u64((uint64_t)A.n * 1000003ULL + (uint64_t)A.nnz()); for (int v : A.rowind) hp.u64((uint64_t)v); Rng rs(hp.h ^ 0xC20);
          if (rs.chance(0.33)) { for (int j = 0; j < A.n; j++) for (int k = A.colptr[j + 1] - 1; k > A.colptr[j]; k--) { int q = A.colptr[j] + (int)rs.below((uint64_t)(k - A.colptr[j] + 1));
                  std::swap(A.rowind[k], A.rowind[q]); std::swap(A.re[k], A.re[q]); std::swap(A.im[k], A.im[q]); }
              A.trans.clear(); A.family += "/unsorted"; } }
        t.mats.push_back(A);
    }
    // per handle: factor, k solves, free ; then a random interleaving that keeps each handle's own order
    std::vector<std::vector<Op>> per(nh);
    for (int h = 0; h < nh; h++) {
        int rounds = r.chance(0.2) ? 2 : 1; // a handle slot can be re-used after it was freed
        for (int q = 0; q < rounds; q++) {
            Op f; f.kind = "bfactor"; f.handle = h; f.mat = h;
            // what the caller's handle variable holds on entry (own stream: the plans themselves stay what they were)
            { uint64_t vb = 0; memcpy(&vb, &t.mats[h].re[0], sizeof vb); f.rhs_seed = mix3(0xB1D6E, (uint64_t)h * 131 + q, vb ^ (uint64_t)t.mats[h].nnz()); }
            per[h].push_back(f);
            int ns = r.range(0, 4); Op last; bool have = false;
            for (int k = 0; k < ns; k++) {
                Op sv; sv.kind = "bsolve"; sv.handle = h; sv.nrhs = r.range(1, 3); sv.ldpad = r.chance(0.4) ? r.range(1, 3) : 0; sv.rhs_seed = r.next();
                if ((sv.rhs_seed >> 40) % 8 == 0) sv.nrhs = 0; // a solve request without right-hand sides is legal and touches nothing
                else if ((sv.rhs_seed >> 44) % 40 == 0) sv.nrhs = 60 + (int)((sv.rhs_seed >> 50) % 80); // "all nrhs": now and then many right-hand sides at once
                if (have && r.chance(0.3)) sv = last; // the same solve again
                per[h].push_back(sv); last = sv; have = true;
            }
            Op fr; fr.kind = "bfree"; fr.handle = h; per[h].push_back(fr);
        }
    }
    std::vector<size_t> pos(nh, 0); size_t total = 0; for (auto &v : per) total += v.size();
    while (t.ops.size() < total) { int h = (int)r.below(nh); if (pos[h] < per[h].size()) t.ops.push_back(per[h][pos[h]++]); }
    return t;
}

Case gen_C20(uint64_t seed, long run, const GenCfg &g, const char *inflight) {
    Rng r(mix3(seed, 20, (uint64_t)run));
    Case c; c.property = "C20"; c.seed = seed; c.run = run; c.variant = g.variant;
    int nc = r.chance(0.45) ? 1 : r.range(2, 3);
    for (int i = 0; i < nc; i++) c.tasks.push_back(gen_client(r, g.thorough));
    c.sched_seed = r.next(); c.sched_mode = r.chance(0.75) ? SM_SLICES : SM_PCT;
    double a = r.unit(), b = r.unit(), cc = r.unit(), d = r.unit() * 0.5, sum = a + b + cc + d;
    c.w_fine = a / sum; c.w_mid = b / sum; c.w_coarse = cc / sum; c.pct_d = r.range(1, 3);
    { static const uint64_t sp[] = {20000, 100000, 400000, 1500000}; c.pct_span = sp[r.below(4)]; }
    if (inflight) write_inflight(inflight, c);
    return c;
}

static void judge_client(const TaskPlan &plan, const PlanRun &pr, const std::string &what, RunOutcome &out, bool count) {
    int live = 0, maxlive = 0; std::map<int, int> solves;
    for (size_t k = 0; k < pr.trace.size() && k < plan.ops.size(); k++) {
        const OpResult &r = pr.trace[k]; const Op &o = plan.ops[k];
        for (auto &v : r.violations) { size_t bar = v.find('|'); out.violations.push_back({v.substr(0, bar), what + " op " + std::to_string(k) + " (" + op_brief(o) + "): " + v.substr(bar + 1), "C20|" + v.substr(0, bar) + "|" + o.kind}); }
        if (r.skipped) { if (count) out.stats["ops_skipped"] += 1; continue; }
        if (o.kind == "bfactor") { live++; maxlive = std::max(maxlive, live); }
        if (o.kind == "bfree") live--;
        if (o.kind == "bsolve") {
            solves[o.handle]++;
            // "the same solution the C simple driver would return": the bridge performs the driver's steps with the driver's defaults, so
            // the executor's model (dgssv's factors of the same matrix + dgstrs) reproduces every solve bit for bit - 100 % of > 10^7
            // solves in all four precisions, tunings and variants on the unchanged tree; a different but equally accurate X is a deviation
            if (r.bridge_bit_equal == 0) out.violations.push_back({"bridge-differs-from-driver", what + " op " + std::to_string(k) + " (" + op_brief(o) + "): X is not the solution the C simple driver returns for the same matrix and right-hand sides (bits differ)", "C20|bridge-differs-from-driver|bsolve"});
            if (count) { out.stats["solves"] += 1; if (r.bridge_bit_equal == 1) out.stats["stat_solves_bit_equal_to_model"] += 1; if (r.bridge_bit_equal == 0) out.stats["stat_solves_not_bit_equal_to_model"] += 1;
                out.stats["max_residual_ratio_x1000"] = std::max(out.stats["max_residual_ratio_x1000"], (double)(r.resid_ratio * 1000)); }
            // the same solve repeated on the same handle gives bit-identical X
            for (size_t j = k; j-- > 0;) { const Op &p = plan.ops[j]; if (p.handle != o.handle) continue; if (p.kind != "bsolve") break;
                if (p.rhs_seed == o.rhs_seed && p.nrhs == o.nrhs && p.ldpad == o.ldpad && !pr.trace[j].skipped) {
                    if (count) out.stats["probe_repeated_solve"] += 1;
                    const std::vector<unsigned char> *x1 = pr.trace[j].snap.get("X"), *x2 = r.snap.get("X");
                    if (x1 && x2 && *x1 != *x2) out.violations.push_back({"bridge-repeat", what + " op " + std::to_string(k) + ": the same solve repeated on handle " + std::to_string(o.handle) + " returned different X", "C20|bridge-repeat|bsolve"});
                    break; } }
        }
    }
    // after the last free the library-site ledger is empty
    for (auto &b : pr.leaks) { out.violations.push_back({"bridge-leak", what + ": block allocated in " + std::string(b.func ? b.func : "?") + " during op " + std::to_string(b.op) + " is still allocated after every handle was freed", std::string("C20|bridge-leak|") + (b.func ? b.func : "?")}); break; }
    if (count) { if (maxlive >= 2) out.stats["probe_two_or_more_live_handles"] += 1; for (auto &kv : solves) if (kv.second >= 2) { out.stats["probe_two_or_more_solves_on_a_handle"] += 1; break; } }
}

RunOutcome exec_C20(const Case &c) {
    RunOutcome out; if (c.tasks.empty()) return out;
    Hash64 h; int nc = (int)c.tasks.size(); uint64_t total = 0;
    // concurrent clients first (see wl_c09.cpp: first calls of a fresh process then happen on different threads)
    ConcurrentResult cr;
    if (nc >= 2) {
        SchedConfig sc; sc.mode = c.sched_mode; sc.seed = c.sched_seed; sc.w_fine = c.w_fine; sc.w_mid = c.w_mid; sc.w_coarse = c.w_coarse; sc.pct_d = c.pct_d; sc.total_steps_hint = c.pct_span;
        if (!c.schedule.empty()) { sc.mode = SM_REPLAY; sc.replay = c.schedule.data(); sc.nreplay = (int)c.schedule.size(); }
        cr = run_plans_concurrent(c.tasks, c20_cfg(), sc);
        out.schedule = cr.sched.slices;
    }
    std::vector<PlanRun> solo(nc);
    bool nontriv = false; std::ostringstream s; s << "{\"clients\":[";
    for (int i = 0; i < nc; i++) {
        const TaskPlan &plan = c.tasks[i];
        solo[i] = run_plan_single(plan, c20_cfg());
        h.u64(solo[i].evhash); total += solo[i].steps;
        double before = out.stats["probe_two_or_more_live_handles"] + out.stats["probe_two_or_more_solves_on_a_handle"];
        judge_client(plan, solo[i], "client " + std::to_string(i), out, true);
        if (out.stats["probe_two_or_more_live_handles"] + out.stats["probe_two_or_more_solves_on_a_handle"] > before) nontriv = true;
        // a handle's answers are unaffected by operations on other handles in between: same client with that handle only
        int nh = (int)plan.mats.size();
        if (nh >= 2) for (int hd = 0; hd < nh; hd++) {
            TaskPlan one = plan; one.ops.clear(); std::vector<size_t> idx;
            for (size_t k = 0; k < plan.ops.size(); k++) if (plan.ops[k].handle == hd) { one.ops.push_back(plan.ops[k]); idx.push_back(k); }
            PlanRun p1 = run_plan_single(one, c20_cfg());
            h.u64(p1.evhash); total += p1.steps; out.stats["single_handle_projections"] += 1;
            judge_client(one, p1, "client " + std::to_string(i) + " with handle " + std::to_string(hd) + " only", out, false);
            for (size_t q = 0; q < idx.size() && q < p1.trace.size(); q++) {
                std::string df = snap_diff(p1.trace[q].snap, solo[i].trace[idx[q]].snap);
                if (!df.empty()) { out.violations.push_back({"bridge-interference", "client " + std::to_string(i) + " op " + std::to_string(idx[q]) + " (" + op_brief(plan.ops[idx[q]]) + "): field " + df + " differs from the same sequence issued with handle " + std::to_string(hd) + " alone", "C20|bridge-interference|" + plan.ops[idx[q]].kind}); break; }
            }
        }
        s << (i ? "," : "") << "\"" << plan.dtype << " " << nh << " handles: "; for (auto &o : plan.ops) s << o.kind[1] << o.handle << " "; s << "\"";
    }
    s << "]";
    out.stats["clients"] += nc; out.stats["plans"] += 1;
    if (nc >= 2) {
        out.stats["concurrent_runs"] += 1; out.stats["preempt_switches"] += (double)cr.sched.switches; out.stats["preempt_switches_in_library"] += (double)cr.sched.switches_in_library;
        h.u64(cr.sched.interleaving_hash);
        for (int i = 0; i < nc; i++) {
            h.u64(cr.runs[i].evhash); total += cr.runs[i].steps;
            judge_client(c.tasks[i], cr.runs[i], "concurrent client " + std::to_string(i), out, false);
            for (size_t k = 0; k < cr.runs[i].trace.size() && k < solo[i].trace.size(); k++) {
                std::string df = snap_diff(solo[i].trace[k].snap, cr.runs[i].trace[k].snap);
                if (!df.empty()) { out.violations.push_back({"bridge-concurrent", "client " + std::to_string(i) + " op " + std::to_string(k) + " (" + op_brief(c.tasks[i].ops[k]) + "): field " + df + " differs from the same client running alone", "C20|bridge-concurrent|" + c.tasks[i].ops[k].kind}); break; }
            }
        }
        s << ",\"switches\":" << cr.sched.switches;
        if (cr.sched.switches_in_library >= 1) nontriv = true;
    }
    out.stats["sim_edges"] += (double)total;
    out.hash = h.h; out.nontrivial = nontriv;
    { Hash64 k; for (auto &t : c.tasks) { k.u64(t.mats.size()); for (auto &o : t.ops) { k.str(o.kind.c_str()); k.u64((uint64_t)o.handle); } k.u64(0xfe); } out.distinct_key = std::to_string(k.h); }
    s << "}"; out.sample = s.str();
    return out;
}

// Simulated allocator with ledger / garbage / ENOMEM faults, tuning provider, clock, abort handler.
#include "simrt.h"
#include <algorithm>
#include <cstdio>
#include <cstdlib>
#include <cstring>
#include <unistd.h>

__thread TaskCtx *g_task = nullptr;
__thread char g_cur_op_kind[32] = "";
bool g_force_user_workspace = false;

static const char kCallerTag[] = "CALLER";

void rt_bind(TaskCtx *t) { g_task = t; }

void rt_event(TaskCtx *t, const char *what, uint64_t a, uint64_t b) {
    t->evh.str(what); t->evh.u64(a); t->evh.u64(b);
    if (t->log_events) {
        char buf[256];
        snprintf(buf, sizeof buf, "%s %llu %llu", what, (unsigned long long)a, (unsigned long long)b);
        t->events.push_back(buf);
    }
}

void rt_op_begin(TaskCtx *t, int op, const std::vector<FaultSpec> &faults) {
    t->cur_op = op; t->faults = faults; t->growth_count = 0; t->growth_log.clear();
    rt_event(t, "op_begin", (uint64_t)op, faults.size());
}
void rt_op_end(TaskCtx *t) { rt_event(t, "op_end", (uint64_t)t->cur_op, (uint64_t)t->growth_count); t->faults.clear(); }

static bool is_growth_site(const char *func) {
    // [sdcz]expand: every request for one of the four growable factor arrays; [sdcz]LUWorkInit: its direct request for the numerical
    // work array under library allocation - the one other allocation whose failure the library reports as info > n instead of aborting
    return func && func[0] && strchr("sdcz", func[0]) && (strcmp(func + 1, "expand") == 0 || strcmp(func + 1, "LUWorkInit") == 0);
}

static void fill_garbage(TaskCtx *t, void *p, size_t n) {
    unsigned char *c = (unsigned char *)p;
    switch (t->garbage) {
    case G_ZERO: memset(c, 0, n); break;
    case G_FF: memset(c, 0xFF, n); break;
    case G_A5: memset(c, 0xA5, n); break;
    case G_NAN: { // every aligned 4-byte word 0x7FF4DEAD: NaN as float and as double, huge as index
        static const unsigned char pat[4] = {0xAD, 0xDE, 0xF4, 0x7F};
        for (size_t i = 0; i < n; i++) c[i] = pat[i & 3];
        break; }
    case G_RANDOM: {
        size_t i = 0;
        for (; i + 8 <= n; i += 8) { uint64_t v = t->grng.next(); memcpy(c + i, &v, 8); }
        if (i < n) { uint64_t v = t->grng.next(); memcpy(c + i, &v, n - i); }
        break; }
    case G_STALE: {
        if (t->stale.empty()) { memset(c, 0x5A, n); break; }
        const std::vector<unsigned char> &src = t->stale[t->grng.below(t->stale.size())];
        if (src.empty()) { memset(c, 0x5A, n); break; }
        for (size_t i = 0; i < n; i += src.size()) memcpy(c + i, src.data(), std::min(src.size(), n - i));
        break; }
    default: break;
    }
}

extern "C" void *sim_malloc(size_t size, const char *file, const char *func, int line) {
    TaskCtx *t = g_task;
    if (!t) return malloc(size); // outside any simulated task (never happens for library code in a run)
    bool caller = (file == kCallerTag);
    bool growth = !caller && is_growth_site(func);
    if (growth) {
        int k = ++t->growth_count;
        t->n_growth_req++;
        bool fail = false;
        for (const FaultSpec &f : t->faults) {
            if (f.persist ? (k >= f.k) : (k == f.k)) {
                fail = true;
                if (f.persist) t->n_fault_persist_fired++; else t->n_fault_once_fired++;
                break;
            }
        }
        t->growth_log.push_back({k, size, fail});
        if (fail) {
            t->n_growth_failed++;
            rt_event(t, "growth_fail", (uint64_t)k, size);
            return nullptr;
        }
    }
    void *p = malloc(size);
    if (!p) { fprintf(stderr, "simrt: host malloc(%zu) failed\n", size); _exit(3); }
    if (growth && t->clean_growth) memset(p, 0, size); else fill_garbage(t, p, size);
    AllocRec r{t->next_alloc_id++, size, file, func, line, t->cur_op, caller, growth};
    t->live[p] = r;
    t->n_alloc++; t->bytes_alloc += size;
    if (!caller) { t->evh.str("m"); t->evh.u64(r.id); t->evh.u64(size); t->evh.str(func ? func : "?"); }
    if (t->log_events && !caller) {
        char buf[256]; snprintf(buf, sizeof buf, "malloc #%llu %zu %s", (unsigned long long)r.id, size, func ? func : "?");
        t->events.push_back(buf);
    }
    return p;
}

extern "C" void sim_free(void *p, const char *file, const char *func, int line) {
    TaskCtx *t = g_task;
    if (!t) { free(p); return; }
    if (!p) return; // the library frees NULL after a failed initial allocation; free(NULL) is legal
    auto it = t->live.find(p);
    if (it == t->live.end()) {
        char buf[256];
        snprintf(buf, sizeof buf, "invalid-free in %s (%s)", func ? func : "?", file == kCallerTag ? "caller" : "library");
        t->rt_violations.push_back(buf);
        rt_event(t, "invalid_free", 0, 0);
        return; // do not hand an unknown pointer to the host allocator
    }
    const AllocRec &r = it->second;
    if (file != kCallerTag) { t->evh.str("f"); t->evh.u64(r.id); }
    if (t->log_events && file != kCallerTag) {
        char buf[256]; snprintf(buf, sizeof buf, "free #%llu by %s", (unsigned long long)r.id, func ? func : "?");
        t->events.push_back(buf);
    }
    if (t->garbage == G_STALE && r.size) {
        size_t keep = std::min<size_t>(r.size, 2048);
        std::vector<unsigned char> v((unsigned char *)p, (unsigned char *)p + keep);
        if (t->stale.size() < 32) t->stale.push_back(std::move(v));
        else { t->stale[t->stale_pos] = std::move(v); t->stale_pos = (t->stale_pos + 1) % 32; }
    }
    t->live.erase(it);
    t->n_free++;
    free(p);
}

extern "C" void sim_abort(const char *msg) {
    TaskCtx *t = g_task;
    if (t && t->escape) {
        t->abort_msg = msg ? msg : "";
        t->escape_code = ESC_ABORT;
        rt_event(t, "abort", 0, 0);
        longjmp(*t->escape, ESC_ABORT);
    }
    fprintf(stderr, "sim_abort outside task: %s\n", msg ? msg : "");
    _exit(4);
}

void *rt_caller_malloc(size_t n) { return sim_malloc(n, kCallerTag, "caller", 0); }
void rt_caller_free(void *p) { sim_free(p, kCallerTag, "caller", 0); }
bool rt_is_live(TaskCtx *t, void *p) { return t->live.count(p) != 0; }

std::vector<AllocRec> rt_live_blocks(TaskCtx *t, bool library_only) {
    std::vector<AllocRec> v;
    for (auto &kv : t->live) if (!library_only || !kv.second.caller) v.push_back(kv.second);
    std::sort(v.begin(), v.end(), [](const AllocRec &a, const AllocRec &b) { return a.id < b.id; });
    return v;
}

void rt_release_all(TaskCtx *t) {
    for (auto &kv : t->live) free(kv.first);
    t->live.clear();
}

// ---- tuning provider: replaces SRC/sp_ienv.c (left out of the link), the documented way to tune SuperLU ----
extern "C" int sp_ienv(int ispec) {
    static const int def[7] = {20, 10, 200, 200, 100, 30, 10};
    if (ispec < 1 || ispec > 7) return 0;
    TaskCtx *t = g_task;
    return t ? t->tuning[ispec - 1] : def[ispec - 1];
}

// ---- simulated clock: replaces SRC/superlu_timer.c. Per-task CPU time = edges executed x 1 ns ----
extern "C" double SuperLU_timer_(void) {
    TaskCtx *t = g_task;
    return t ? (double)t->steps * 1e-9 : 0.0;
}

// Sanitizer reports are classified by exit code 77; leak detection is done by the ledger, not LSan.
extern "C" __attribute__((used)) const char *__asan_default_options() {
    return "exitcode=77:detect_leaks=0:abort_on_error=0:allocator_may_return_null=1:detect_stack_use_after_return=0:handle_abort=1";
}
extern "C" __attribute__((used)) const char *__ubsan_default_options() { return "exitcode=77:print_stacktrace=1:halt_on_error=1"; }
extern "C" __attribute__((used)) const char *__tsan_default_options() {
    return "exitcode=77:halt_on_error=1:report_thread_leaks=0:report_signal_unsafe=0:second_deadlock_stack=0";
}

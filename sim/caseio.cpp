// JSON (de)serialisation of cases. Floating-point values are written as C99 hex-floats so replay is bit-exact.
#include "case.h"
#include <nlohmann/json.hpp>
#include <cstdio>
#include <cstdlib>
using nlohmann::json;

static std::string hexf(double v) { char b[64]; snprintf(b, sizeof b, "%a", v); return b; }
static double unhexf(const json &j) { if (j.is_string()) return strtod(j.get<std::string>().c_str(), nullptr); return j.get<double>(); }
static json hexv(const std::vector<double> &v) { json a = json::array(); for (double d : v) a.push_back(hexf(d)); return a; }
static std::vector<double> unhexv(const json &a) { std::vector<double> v; for (auto &e : a) v.push_back(unhexf(e)); return v; }

static json faults_j(const std::vector<FaultSpec> &fs) { json a = json::array(); for (auto &f : fs) a.push_back({{"k", f.k}, {"persist", f.persist}}); return a; }
static std::vector<FaultSpec> faults_u(const json &a) { std::vector<FaultSpec> v; for (auto &e : a) { FaultSpec f; f.k = e.value("k", 0); f.persist = e.value("persist", false); v.push_back(f); } return v; }

static json mat_j(const Mat &A) {
    json j = {{"m", A.m}, {"n", A.n}, {"colptr", A.colptr}, {"rowind", A.rowind}, {"re", hexv(A.re)}, {"family", A.family}};
    bool anyim = false; for (double d : A.im) if (d != 0) anyim = true;
    if (anyim) j["im"] = hexv(A.im);
    return j;
}
static Mat mat_u(const json &j) {
    Mat A; A.m = j.at("m"); A.n = j.at("n"); A.colptr = j.at("colptr").get<std::vector<int>>(); A.rowind = j.at("rowind").get<std::vector<int>>();
    A.re = unhexv(j.at("re")); if (j.contains("im")) A.im = unhexv(j["im"]); else A.im.assign(A.re.size(), 0.0);
    A.family = j.value("family", std::string());
    return A;
}

static json op_j(const Op &o) {
    Op d; // defaults: only differing fields are written, keeps replay files readable
    json j = {{"kind", o.kind}};
#define F(name) if (o.name != d.name) j[#name] = o.name;
    F(slot) F(fact) F(equil) F(colperm) F(trans) F(refine) F(symmode) F(pivgrowth) F(condnum)
    F(rowperm) F(droprule) F(ilunorm) F(milu) F(lwork) F(align) F(wsgarbage) F(nrhs) F(ldpad) F(ldxpad) F(rhs_seed)
    F(storage) F(mat) F(reader) F(rsym) F(rbase0) F(rfmt) F(vchange) F(permc_seed) F(stages) F(handle)
#undef F
    if (o.thresh != d.thresh) j["thresh"] = hexf(o.thresh);
    if (o.droptol != d.droptol) j["droptol"] = hexf(o.droptol);
    if (o.fillfactor != d.fillfactor) j["fillfactor"] = hexf(o.fillfactor);
    if (o.filltol != d.filltol) j["filltol"] = hexf(o.filltol);
    if (!o.re.empty()) { j["re"] = hexv(o.re); bool anyim = false; for (double v : o.im) if (v != 0) anyim = true; if (anyim) j["im"] = hexv(o.im); }
    if (!o.faults.empty()) j["faults"] = faults_j(o.faults);
    return j;
}
static Op op_u(const json &j) {
    Op o; o.kind = j.at("kind");
#define F(name) if (j.contains(#name)) o.name = j[#name].get<decltype(o.name)>();
    F(slot) F(fact) F(equil) F(colperm) F(trans) F(refine) F(symmode) F(pivgrowth) F(condnum)
    F(rowperm) F(droprule) F(ilunorm) F(milu) F(lwork) F(align) F(wsgarbage) F(nrhs) F(ldpad) F(ldxpad) F(rhs_seed)
    F(storage) F(mat) F(reader) F(rsym) F(rbase0) F(rfmt) F(vchange) F(permc_seed) F(stages) F(handle)
#undef F
    if (j.contains("thresh")) o.thresh = unhexf(j["thresh"]);
    if (j.contains("droptol")) o.droptol = unhexf(j["droptol"]);
    if (j.contains("fillfactor")) o.fillfactor = unhexf(j["fillfactor"]);
    if (j.contains("filltol")) o.filltol = unhexf(j["filltol"]);
    if (j.contains("re")) { o.re = unhexv(j["re"]); if (j.contains("im")) o.im = unhexv(j["im"]); else o.im.assign(o.re.size(), 0.0); }
    if (j.contains("faults")) o.faults = faults_u(j["faults"]);
    return o;
}

std::string case_to_json(const Case &c) {
    json j;
    j["property"] = c.property; j["seed"] = c.seed; j["run"] = c.run; j["variant"] = c.variant; j["note"] = c.note;
    json tasks = json::array();
    for (auto &t : c.tasks) {
        json tj; tj["dtype"] = std::string(1, t.dtype);
        tj["tuning"] = std::vector<int>(t.tuning, t.tuning + 7); tj["garbage"] = t.garbage;
        json ms = json::array(); for (auto &m : t.mats) ms.push_back(mat_j(m)); tj["mats"] = ms;
        json os = json::array(); for (auto &o : t.ops) os.push_back(op_j(o)); tj["ops"] = os;
        tasks.push_back(tj);
    }
    j["tasks"] = tasks;
    j["sched"] = {{"mode", c.sched_mode}, {"seed", c.sched_seed}, {"w_fine", c.w_fine}, {"w_mid", c.w_mid}, {"w_coarse", c.w_coarse}, {"pct_d", c.pct_d}, {"pct_span", c.pct_span}};
    if (!c.schedule.empty()) { json s = json::array(); for (auto &r : c.schedule) s.push_back({(uint64_t)r.task, r.edges, (uint64_t)r.kind}); j["schedule"] = s; }
    if (!c.envs.empty()) {
        json es = json::array();
        for (auto &e : c.envs) es.push_back({{"lwork", e.lwork}, {"align", e.align}, {"fill", e.fill}, {"garbage", e.garbage}, {"wsgarbage", e.wsgarbage}, {"faults", faults_j(e.faults)}, {"label", e.label}});
        j["envs"] = es;
    }
    j["prior_plans"] = c.prior_plans;
    return j.dump(1);
}

bool case_from_json(const std::string &text, Case &c, std::string &err) {
    try {
        json j = json::parse(text);
        c = Case();
        c.property = j.at("property"); c.seed = j.value("seed", (uint64_t)0); c.run = j.value("run", 0L); c.variant = j.value("variant", std::string());
        c.note = j.value("note", std::string());
        for (auto &tj : j.at("tasks")) {
            TaskPlan t; std::string d = tj.value("dtype", std::string("d")); t.dtype = d.empty() ? 'd' : d[0];
            if (tj.contains("tuning")) { auto v = tj["tuning"].get<std::vector<int>>(); for (size_t i = 0; i < 7 && i < v.size(); i++) t.tuning[i] = v[i]; }
            t.garbage = tj.value("garbage", 0);
            if (tj.contains("mats")) for (auto &m : tj["mats"]) t.mats.push_back(mat_u(m));
            for (auto &o : tj.at("ops")) t.ops.push_back(op_u(o));
            c.tasks.push_back(std::move(t));
        }
        if (j.contains("sched")) { auto &s = j["sched"]; c.sched_mode = s.value("mode", 0); c.sched_seed = s.value("seed", (uint64_t)0); c.w_fine = s.value("w_fine", 0.25); c.w_mid = s.value("w_mid", 0.25); c.w_coarse = s.value("w_coarse", 0.25); c.pct_d = s.value("pct_d", 2); c.pct_span = s.value("pct_span", (uint64_t)200000); }
        if (j.contains("schedule")) for (auto &r : j["schedule"]) c.schedule.push_back({r[0].get<int>(), r[1].get<uint64_t>(), r.size() > 2 ? r[2].get<int>() : 0});
        if (j.contains("envs")) for (auto &e : j["envs"]) {
            EnvSpec s; s.lwork = e.value("lwork", 0L); s.align = e.value("align", 0); s.fill = e.value("fill", -1); s.garbage = e.value("garbage", 0); s.wsgarbage = e.value("wsgarbage", 0);
            if (e.contains("faults")) s.faults = faults_u(e["faults"]);
            s.label = e.value("label", std::string());
            c.envs.push_back(s);
        }
        c.prior_plans = j.value("prior_plans", 0);
        return true;
    } catch (std::exception &e) { err = e.what(); return false; }
}

std::string json_escape(const std::string &s) { return json(s).dump(); }

#!/usr/bin/env python3
"""check.py <PROP> --tier quick|thorough : deterministic-simulation check of one property.

Builds the instrumented variants from /repo's current working tree, fans simulated runs out over worker
processes, gates + minimises every violation candidate, matches known findings, writes evidence/<PROP>.json.

exit 0  property held on everything explored (KNOWN-FINDING lines allowed)
exit 1  "VIOLATION property=<id> replay=<path>" printed for a violation not listed in known_findings.json
exit 2  failure of the machinery itself (build error, non-deterministic replay, ...)
"""
import argparse, json, os, re, subprocess, sys, time, hashlib, shutil, threading, queue, copy, glob

VERIF = os.path.dirname(os.path.dirname(os.path.abspath(__file__)))
sys.path.insert(0, os.path.join(VERIF, "tools"))
import build as B  # noqa
import minimise as M  # noqa

PROPS = {
    # id: dict(level, quick runs, thorough seconds, variants quick, variants thorough, chunk)
    "C06": dict(level="exploration", quick=24000, thorough_s=600, vq=["asan", "asan-i64", "asan", "asan-vblas"], vt=["asan", "asan-vblas", "asan-i64"], chunk=25),
    "C07": dict(level="exploration", quick=16000, thorough_s=600, vq=["asan", "asan-i64", "asan", "asan-vblas"], vt=["asan", "asan-vblas", "asan-i64"], chunk=20),
    "C08": dict(level="fault_enumeration", quick=800, thorough_s=900, vq=["asan", "asan-i64", "asan", "asan-vblas"], vt=["asan", "asan-vblas", "asan-i64"], chunk=2),
    "C09": dict(level="exploration", quick=10000, thorough_s=900, vq=["tsan", "asan"], vt=["tsan", "asan", "tsan-i64", "asan-vblas"], chunk=5),
    "C19": dict(level="exploration", quick=24000, thorough_s=900, vq=["asan", "asan-i64", "asan", "asan-vblas"], vt=["asan", "asan-vblas", "asan-i64"], chunk=25),
    "C20": dict(level="exploration", quick=10000, thorough_s=600, vq=["asan", "tsan"], vt=["asan", "tsan", "asan-i64"], chunk=10),
}
PROP_NUM = {"C06": 6, "C07": 7, "C08": 8, "C09": 9, "C19": 19, "C20": 20}

REAL = ["all of SRC/ except sp_ienv.c and superlu_timer.c (real code)", "all of CBLAS/ (real code)", "FORTRAN/c_fortran_[sdcz]gssv.c (real code)"]
REPLACED = ["sp_ienv (tuning provider, replaced as the library documents)", "SuperLU_timer_ (simulated clock)",
            "superlu_malloc/superlu_free (by-passed through the USER_MALLOC/USER_FREE macro seam)", "superlu_abort_and_exit (USER_ABORT seam)"]


def log(*a):
    print(*a, file=sys.stderr, flush=True)


def classify_sanitizer(stderr_text):
    """Return (kind, innermost library function) of a sanitizer report, or None."""
    kind = None
    m = re.search(r"ERROR: AddressSanitizer: ([\w-]+)", stderr_text)
    if m:
        kind = "asan-" + m.group(1)
    if not kind:
        m = re.search(r"runtime error: ([^\n]+)", stderr_text)
        if m:
            msg = m.group(1)
            msg = re.sub(r"0x[0-9a-f]+", "ADDR", msg)
            msg = re.sub(r"-?\d+", "N", msg)
            kind = "ubsan-" + re.sub(r"[^A-Za-z]+", "-", msg)[:60].strip("-")
    if not kind:
        m = re.search(r"WARNING: ThreadSanitizer: ([\w -]+)", stderr_text)
        if m:
            kind = "tsan-" + m.group(1).strip().replace(" ", "-")
    if not kind:
        return None
    # innermost frame in SRC/ or FORTRAN/ (a CBLAS leaf such as dcopy_ is skipped in favour of its library caller)
    func = "?"
    first_stack = stderr_text.split("\n\n")[0] if "\n\n" in stderr_text else stderr_text
    head = stderr_text
    m_alloc = re.search(r"\n(allocated by thread|previously allocated by thread|Previous (?:write|read)|Location is)", stderr_text)
    if m_alloc:
        head = stderr_text[:m_alloc.start()]
    libframes = re.findall(r"#\d+ (?:0x[0-9a-f]+ in )?(\S+) (\S+)", head)
    cblas = None
    for fn, loc in libframes:
        if "/SRC/" in loc or "/FORTRAN/" in loc:
            func = fn
            break
        if "/CBLAS/" in loc and cblas is None:
            cblas = fn
    if func == "?" and cblas:
        func = cblas
    inlib = func != "?"
    extra = ""
    m = re.search(r"\n(READ|WRITE) of size", stderr_text)
    if m:
        extra += "|" + m.group(1)[0]
    if m_alloc and stderr_text[m_alloc.start():].lstrip().startswith("allocated by"):
        tail = stderr_text[m_alloc.start():]
        for fn, loc in re.findall(r"#\d+ (?:0x[0-9a-f]+ in )?(\S+) (\S+)", tail):
            if "/SRC/" in loc or "/FORTRAN/" in loc:
                extra += "|alloc:" + fn
                break
    return kind, func + extra, inlib


def crash_key(stderr_text, stdout_text, rc):
    """Violation class of a run that killed its process: sanitizer kind + innermost library function + API operation."""
    m = re.search(r"^X .*op:(\S*)", stdout_text, re.M)
    op = "|op:" + m.group(1) if m else ""
    c = classify_sanitizer(stderr_text)
    if c:
        return "SAN|%s|%s%s" % (c[0], c[1], op)
    if "library called exit()" in stdout_text:
        return "EXIT|library-called-exit" + op
    return "CRASH|rc%s%s" % (rc, op)


class Worker(threading.Thread):
    """Runs chunks of run indices through one simworker process at a time; restarts after a death."""

    def __init__(self, ctx, wid):
        super().__init__(daemon=True)
        self.ctx = ctx
        self.wid = wid

    def run(self):
        ctx = self.ctx
        while True:
            try:
                item = ctx.q.get_nowait()
            except queue.Empty:
                return
            variant, start, count = item
            self.run_chunk(variant, start, count)

    def run_chunk(self, variant, start, count):
        ctx = self.ctx
        exe = ctx.exes[variant]
        idx = start
        end = start + count
        while idx < end:
            if ctx.stop.is_set() or (ctx.deadline and time.time() > ctx.deadline):
                return
            cmd = [exe, ctx.prop, "--seed", str(ctx.seed), "--from", str(idx), "--count", str(end - idx), "--outdir", ctx.tmpdir]
            if ctx.thorough:
                cmd.append("--thorough")
            if ctx.twice:
                cmd.append("--twice")
            env = dict(os.environ)
            with ctx.lock:
                ctx.covn += 1
                covfile = os.path.join(ctx.tmpdir, "cov-%s-%d.txt" % (variant, ctx.covn))
            env["SIM_COV_DUMP"] = covfile
            p = subprocess.Popen(cmd, stdout=subprocess.PIPE, stderr=subprocess.PIPE, text=True, cwd=VERIF, env=env)
            proc_from = idx
            errbuf = []
            t = threading.Thread(target=lambda: errbuf.append(p.stderr.read()), daemon=True)
            t.start()
            started = None
            xline = None
            done_idx = idx - 1
            progress = [time.time()]

            def watchdog(proc=p, progress=progress):
                # a worker that prints nothing for 2 minutes is stuck (a single run is bounded by its step budget): kill it
                while proc.poll() is None:
                    time.sleep(2)
                    if time.time() - progress[0] > 120:
                        proc.kill()
                        return
            threading.Thread(target=watchdog, daemon=True).start()
            for line in p.stdout:
                progress[0] = time.time()
                if line.startswith("S "):
                    started = int(line.split()[1])
                elif line.startswith("R "):
                    _, i, js = line.split(" ", 2)
                    done_idx = int(i)
                    try:
                        ctx.on_result(variant, int(i), json.loads(js), proc_from)
                    except Exception as e:  # malformed line = machinery failure
                        ctx.machinery_error("bad result line from worker: %r (%s)" % (line[:200], e))
                elif line.startswith("D "):
                    _, hit, tot = line.split()
                    ctx.on_cov(variant, int(hit), int(tot))
                elif line.startswith("X "):
                    xline = line.strip()
                elif line.startswith("E "):
                    ctx.machinery_error(line.strip())
                if ctx.deadline and time.time() > ctx.deadline + 30:
                    p.kill()
            p.wait()
            t.join()
            if started is not None and started > done_idx:
                # the worker died inside run `started`
                ctx.on_death(variant, started, p.returncode, (errbuf[0] if errbuf else "") + ("\n" + xline if xline else ""), proc_from)
                idx = started + 1
            else:
                idx = done_idx + 1
                if p.returncode not in (0, 1):
                    ctx.machinery_error("worker exit %s without an in-flight run: %s" % (p.returncode, (errbuf[0] if errbuf else "")[-400:]))
                    return
                if idx < end and not ctx.stop.is_set() and not (ctx.deadline and time.time() > ctx.deadline):
                    # worker stopped early without dying: treat as machinery problem
                    ctx.machinery_error("worker stopped early at %d of [%d,%d)" % (idx, start, end))
                    return


class Ctx:
    pass


def run_replay(exe, path, timeout=60, twice=False):
    """Replay a case file in a fresh process. Returns (set of violation keys, detail map, rc, stderr)."""
    cmd = [exe, "--replay", path] + (["--twice"] if twice else [])
    try:
        p = subprocess.run(cmd, stdout=subprocess.PIPE, stderr=subprocess.PIPE, text=True, timeout=timeout, cwd=VERIF)
    except subprocess.TimeoutExpired:
        return {"TIMEOUT"}, {"TIMEOUT": "replay did not finish within %ds" % timeout}, -9, ""
    keys = {}
    for line in p.stdout.splitlines():
        if line.startswith("R "):
            js = json.loads(line.split(" ", 2)[2])
            for v in js.get("violations", []):
                keys.setdefault(v["key"], v["detail"])
        elif line.startswith("E "):
            keys.setdefault("MACHINERY|" + line[2:40], line)
    if p.returncode not in (0, 1):
        keys.setdefault(crash_key(p.stderr, p.stdout, p.returncode), p.stderr[-3000:] or p.stdout[-500:])
    return set(keys), keys, p.returncode, p.stderr


def run_history(exe, prop, seed, start, idx, thorough, tmpdir):
    """Re-run runs start..idx in ONE fresh process; return the violation keys of run idx (incl. a crash inside it)."""
    cmd = [exe, prop, "--seed", str(seed), "--from", str(start), "--count", str(idx - start + 1), "--outdir", tmpdir] + (["--thorough"] if thorough else [])
    try:
        p = subprocess.run(cmd, stdout=subprocess.PIPE, stderr=subprocess.PIPE, text=True, timeout=600, cwd=VERIF)
    except subprocess.TimeoutExpired:
        return set()
    keys = set(); started = None; done = None
    for line in p.stdout.splitlines():
        if line.startswith("S "):
            started = int(line.split()[1])
        elif line.startswith("R "):
            _, i, js = line.split(" ", 2)
            done = int(i)
            if done == idx:
                for v in json.loads(js).get("violations", []):
                    keys.add(v["key"])
    if p.returncode not in (0, 1) and started == idx and done != idx:
        keys.add(crash_key(p.stderr, p.stdout, p.returncode))
    return keys


def coverage_by_file(tmpdir, exes):
    """Union of the covered control-flow edges (PCs dumped by every worker that exited normally), per library source file."""
    out = {}
    for v, exe in exes.items():
        pcs = set()
        for f in glob.glob(os.path.join(tmpdir, "cov-%s-*.txt" % v)):
            try:
                pcs.update(l.strip() for l in open(f) if l.startswith("0x"))
            except OSError:
                pass
        if not pcs:
            continue
        per = {"_union": len(pcs)}
        sym = shutil.which("llvm-symbolizer-14") or shutil.which("llvm-symbolizer")
        if sym:
            try:
                p = subprocess.run([sym, "--obj=" + exe, "--output-style=GNU", "--no-inlines", "--functions=none"], input="\n".join(sorted(pcs)) + "\n",
                                   stdout=subprocess.PIPE, stderr=subprocess.DEVNULL, text=True, timeout=120)
                for line in p.stdout.splitlines():
                    path = line.rsplit(":", 2)[0] if line.count(":") >= 2 else line.split(":")[0]
                    m = re.search(r"/(SRC|CBLAS|FORTRAN)/([^/]+)$", path)
                    if m:
                        k = m.group(1) + "/" + m.group(2)
                        per[k] = per.get(k, 0) + 1
            except Exception:
                pass
        out[v] = per
    return out


def load_known():
    path = os.path.join(VERIF, "known_findings.json")
    if not os.path.exists(path):
        return {"findings": [], "fixed": []}
    return json.load(open(path))


def match_known(known, prop, key):
    for f in known.get("findings", []):
        rx = f["key_regex"] if isinstance(f["key_regex"], list) else [f["key_regex"]]
        if prop in f.get("properties", [f.get("property")]) and any(re.fullmatch(x, key) for x in rx):
            return f
    return None


def main():
    ap = argparse.ArgumentParser()
    ap.add_argument("prop")
    ap.add_argument("--tier", default=os.environ.get("VERIF_TIER", "quick"))
    ap.add_argument("--seed", type=int, default=int(os.environ.get("VERIF_SEED", "20260929")))
    ap.add_argument("--runs", type=int, default=0)
    ap.add_argument("--seconds", type=int, default=0)
    ap.add_argument("--workers", type=int, default=min(16, os.cpu_count() or 4))
    ap.add_argument("--variants", default="")
    ap.add_argument("--replay", default="")
    ap.add_argument("--twice", action="store_true", help="execute every case twice and compare event-log hashes")
    ap.add_argument("--no-minimise", action="store_true")
    ap.add_argument("--no-evidence", action="store_true")
    ap.add_argument("--max-candidates", type=int, default=6)
    args = ap.parse_args()
    prop = args.prop
    if prop not in PROPS:
        log("unknown property", prop)
        return 2
    P = PROPS[prop]
    thorough = args.tier == "thorough"
    variants = args.variants.split(",") if args.variants else (P["vt"] if thorough else P["vq"])
    t0 = time.time()
    exes = {}
    for v in variants:
        exes[v] = B.build_variant(v)

    if args.replay and json.load(open(args.replay)).get("history_replay"):
        hcase = json.load(open(args.replay))
        v = hcase.get("variant") or variants[0]
        if v not in exes:
            exes[v] = B.build_variant(v)
        tmpd = os.path.join(VERIF, "replays", "tmp", "hist-%d" % os.getpid()); os.makedirs(tmpd, exist_ok=True)
        ks = run_history(exes[v], hcase["property"], hcase["seed"], hcase["from"], hcase["to"], hcase.get("thorough", False), tmpd)
        shutil.rmtree(tmpd, ignore_errors=True)
        known = load_known(); bad = 0
        for k in sorted(ks):
            f = match_known(known, prop, k)
            if f:
                print("KNOWN-FINDING: property=%s %s" % (prop, f["what"]))
            else:
                bad += 1
                print("VIOLATION property=%s replay=%s" % (prop, args.replay)); print("  class: %s" % k)
        if not ks:
            print("replay: no violation")
        return 1 if bad else 0
    if args.replay:
        c = json.load(open(args.replay))
        v = c.get("variant") or variants[0]
        if v not in exes:
            exes[v] = B.build_variant(v)
        keys, det, rc, err = run_replay(exes[v], args.replay, twice=True)
        known = load_known()
        bad = 0
        for k in sorted(keys):
            f = match_known(known, prop, k)
            if f:
                print("KNOWN-FINDING: property=%s %s" % (prop, f["what"]))
            else:
                bad += 1
                print("VIOLATION property=%s replay=%s" % (prop, args.replay))
                print("  class: %s\n  %s" % (k, det[k][:1500]))
        if not keys:
            print("replay: no violation")
        return 1 if bad else 0

    ctx = Ctx()
    ctx.prop = prop; ctx.seed = args.seed; ctx.thorough = thorough; ctx.twice = args.twice
    ctx.exes = exes
    ctx.tmpdir = os.path.join(VERIF, "replays", "tmp", "%s-%d" % (prop, os.getpid()))
    os.makedirs(ctx.tmpdir, exist_ok=True)
    # remove scratch directories left behind by checks that were killed (their pid is no longer alive)
    for d in glob.glob(os.path.join(VERIF, "replays", "tmp", "*-*")):
        try:
            pid = int(d.rsplit("-", 1)[1])
            if pid != os.getpid() and not os.path.exists("/proc/%d" % pid):
                shutil.rmtree(d, ignore_errors=True)
        except ValueError:
            pass
    ctx.q = queue.Queue(); ctx.stop = threading.Event()
    ctx.lock = threading.Lock()
    ctx.results = 0; ctx.stats = {}; ctx.samples = []; ctx.dkeys = set(); ctx.nontrivial = 0
    ctx.candidates = []  # (variant, idx, key, detail, casepath or None)
    ctx.cand_keys = {}
    ctx.errors = []; ctx.cov = {}; ctx.per_variant = {}
    ctx.deadline = None
    ctx.hash_by_run = {}
    ctx.covn = 0
    ctx.known = load_known()

    def on_result(variant, idx, js, proc_from=None):
        with ctx.lock:
            ctx.results += 1
            ctx.per_variant[variant] = ctx.per_variant.get(variant, 0) + 1
            for k, v in js.get("stats", {}).items():
                if k.startswith("max_"):
                    ctx.stats[k] = max(ctx.stats.get(k, 0), v)
                else:
                    ctx.stats[k] = ctx.stats.get(k, 0) + v
            if js.get("nontrivial"):
                if js.get("dkey") not in ctx.dkeys:
                    ctx.dkeys.add(js.get("dkey"))
            if "sample" in js and len(ctx.samples) < 6 and (js.get("nontrivial") or len(ctx.samples) < 2):
                s = dict(js["sample"]); s["run"] = idx; s["variant"] = variant
                ctx.samples.append(s)
            if sum(n_ for k_, n_ in ctx.cand_keys.items() if not match_known(ctx.known, prop, k_)) > 150:
                ctx.stop.set()   # plenty of evidence already: stop the sweep and go on to confirm / minimise
            for v in js.get("violations", []):
                n = ctx.cand_keys.get(v["key"], 0)
                ctx.cand_keys[v["key"]] = n + 1
                if n < 3:
                    ctx.candidates.append((variant, idx, v["key"], v["detail"], js.get("case"), proc_from))
    ctx.on_result = on_result

    def on_cov(variant, hit, tot):
        with ctx.lock:
            h, t = ctx.cov.get(variant, (0, 0))
            ctx.cov[variant] = (max(h, hit), tot)
    ctx.on_cov = on_cov

    def on_death(variant, idx, rc, err, proc_from=None):
        key = crash_key(err, err, rc)
        with ctx.lock:
            ctx.results += 1
            if sum(n_ for k_, n_ in ctx.cand_keys.items() if not match_known(ctx.known, prop, k_)) > 150:
                ctx.stop.set()
            n = ctx.cand_keys.get(key, 0)
            ctx.cand_keys[key] = n + 1
            if n < 3:
                ctx.candidates.append((variant, idx, key, err[-3000:], None, proc_from))
    ctx.on_death = on_death

    def machinery_error(msg):
        with ctx.lock:
            ctx.errors.append(msg)
        ctx.stop.set()
    ctx.machinery_error = machinery_error

    # ---- plan the work: run indices are global; variant of a run = rotation by index block ----
    chunk = P["chunk"]
    if thorough:
        budget = args.seconds or P["thorough_s"]
        ctx.deadline = time.time() + budget
        total = args.runs or 10 ** 9
    else:
        total = args.runs or P["quick"]
        if args.seconds:
            ctx.deadline = time.time() + args.seconds
    nchunks = (min(total, 50_000_000) + chunk - 1) // chunk
    # enqueue lazily for thorough (deadline-bound)
    maxq = nchunks if not thorough else min(nchunks, 400000)
    for ci in range(maxq):
        v = variants[ci % len(variants)] if len(variants) > 1 else variants[0]
        ctx.q.put((v, ci * chunk, min(chunk, total - ci * chunk)))
    workers = [Worker(ctx, i) for i in range(args.workers)]
    for w in workers:
        w.start()
    for w in workers:
        w.join()
    sim_wall = time.time() - t0

    if ctx.errors:
        for e in ctx.errors[:5]:
            log("MACHINERY ERROR:", e)
        shutil.rmtree(ctx.tmpdir, ignore_errors=True)
        return 2

    # ---- gate, minimise, classify candidates ----
    known = load_known()
    reported = []       # (key, replay path, detail)
    known_hits = {}
    seen_keys = set()
    os.makedirs(os.path.join(VERIF, "replays"), exist_ok=True)
    unreproducible = []
    for (variant, idx, key, detail, casepath, proc_from) in ctx.candidates:
        if key in seen_keys:
            continue
        kf0 = match_known(known, prop, key)
        if kf0:
            # the class is a recorded finding: attributed to it whether or not this particular occurrence replays
            # (its own replay file is probed below); nothing else is hidden by this, other classes are still gated
            known_hits[kf0["id"]] = kf0
            seen_keys.add(key)
            continue
        exe = exes[variant]
        if casepath is None:
            # crash: regenerate the case with the in-flight recorder
            casepath = os.path.join(ctx.tmpdir, "inflight-%s-%d.json" % (variant, idx))
            cmd = [exe, prop, "--seed", str(args.seed), "--from", str(idx), "--count", "1", "--inflight", casepath, "--outdir", ctx.tmpdir] + (["--thorough"] if thorough else [])
            try:
                subprocess.run(cmd, stdout=subprocess.PIPE, stderr=subprocess.PIPE, cwd=VERIF, timeout=180)
            except subprocess.TimeoutExpired:
                pass  # (seen: ThreadSanitizer's runtime can dead-lock while printing a report) - the in-flight file is written before the run starts
            if not os.path.exists(casepath):
                log("MACHINERY ERROR: could not capture the case of crashed run %d" % idx)
                return 2
        # gate: fresh-process replay, twice, must reproduce the same class
        k1, d1, rc1, e1 = run_replay(exe, casepath)
        k2, d2, rc2, e2 = run_replay(exe, casepath)
        if variant.startswith("tsan") and not match_known(known, prop, key):
            # ThreadSanitizer is not a memory-error detector: a heap overflow (known finding KF2) corrupts neighbouring blocks and shows
            # up as a TSan report, a crash or a result mismatch depending on the heap layout. Ask the AddressSanitizer build what this
            # case really does before judging it: if it is a recorded finding, it is reported as such.
            av = "asan-i64" if variant.endswith("i64") else "asan"
            if av not in exes:
                exes[av] = B.build_variant(av)
            ka, da, rca, ea = run_replay(exes[av], casepath)
            kfa = [match_known(known, prop, k) for k in ka]
            if any(kfa):
                for f in kfa:
                    if f:
                        known_hits[f["id"]] = f
                seen_keys.add(key)
                continue
        if key not in k1 or key not in k2:
            if k1 != k2 or not k1 or "TIMEOUT" in k1:
                # Not reproducible from the case alone.  The case is a pure function of (seed, run), so the only thing a fresh
                # process lacks is what the same worker process did BEFORE this run: state the library carried from earlier,
                # unrelated calls.  Replay the process history (seed, first run of that process .. this run) twice.
                hist = None
                if proc_from is not None and proc_from < idx:
                    kh1 = run_history(exe, prop, args.seed, proc_from, idx, thorough, ctx.tmpdir)
                    kh2 = run_history(exe, prop, args.seed, proc_from, idx, thorough, ctx.tmpdir)
                    if key in kh1 and key in kh2:
                        start = proc_from
                        for back in (1, 2, 4, 8, 16, 32):   # shorten the history
                            if idx - back <= proc_from:
                                break
                            if key in run_history(exe, prop, args.seed, idx - back, idx, thorough, ctx.tmpdir):
                                start = idx - back
                                break
                        hist = {"history_replay": True, "property": prop, "seed": args.seed, "from": start, "to": idx, "variant": variant,
                                "thorough": thorough, "key": key,
                                "note": "the violation of run %d only shows when runs %d..%d were executed before it in the same process: the library carries state from earlier, unrelated calls" % (idx, start, idx - 1)}
                if hist is None:
                    unreproducible.append((key, idx, sorted(k1), sorted(k2), casepath))
                    continue
                seen_keys.add(key)
                if match_known(known, prop, key):
                    known_hits[match_known(known, prop, key)["id"]] = match_known(known, prop, key)
                    continue
                final = os.path.join(VERIF, "replays", "%s-%d-%d-%s-history.json" % (prop, args.seed, idx, hashlib.sha1(key.encode()).hexdigest()[:6]))
                json.dump(hist, open(final, "w"), indent=1)
                if len(reported) < args.max_candidates:
                    reported.append((key, final, detail + "\n" + hist["note"]))
                continue
            # reproducible but classified differently (e.g. first of several violations): adopt replay's classes
            key = sorted(k1)[0]
            detail = d1.get(key, detail)
            if key in seen_keys:
                continue
        seen_keys.add(key)
        kf = match_known(known, prop, key)
        final = os.path.join(VERIF, "replays", "%s-%d-%d-%s.json" % (prop, args.seed, idx, hashlib.sha1(key.encode()).hexdigest()[:6]))
        if kf:
            known_hits[kf["id"]] = kf
            continue
        if len(reported) >= args.max_candidates:
            continue
        shutil.copy(casepath, final)
        if not args.no_minimise:
            try:
                M.minimise(exe, final, key, run_replay, budget_s=60, log=log)
            except Exception as e:  # minimisation is best effort; the unminimised replay stays valid
                log("minimiser failed: %r" % (e,))
        k3, d3, rc3, e3 = run_replay(exe, final)
        if key not in k3:
            log("MACHINERY ERROR: minimised replay lost the violation")
            shutil.copy(casepath, final)
        reported.append((key, final, (d3.get(key) or detail)))

    if unreproducible and not reported:
        for (key, idx, a, b, casepath) in unreproducible[:5]:
            log("MACHINERY ERROR: candidate %s of run %d reproduces neither from its case nor from its process history (%s / %s)" % (key, idx, a, b))
            shutil.copy(casepath, os.path.join(VERIF, "replays", "unreproducible-%s-%d.json" % (prop, idx)))
        return 2
    for (key, idx, a, b, casepath) in unreproducible[:5]:
        log("note: candidate %s of run %d did not reproduce on replay (other violations of this run were confirmed)" % (key, idx))
    # ---- probe the recorded findings of this property: each one that still reproduces is printed as KNOWN-FINDING ----
    for kf in known.get("findings", []):
        if prop not in kf.get("properties", [kf.get("property")]) or kf["id"] in known_hits:
            continue
        if kf.get("probe_property", kf.get("properties", [None])[0]) != prop:
            continue  # probed once, by the first property listed
        rp = os.path.join(VERIF, kf["replay"])
        if not os.path.exists(rp):
            continue
        c = json.load(open(rp))
        v = kf.get("variant") or c.get("variant") or variants[0]
        if v not in exes:
            if v not in B.VARIANTS:
                v = variants[0]
            else:
                exes[v] = B.build_variant(v)
        exe = exes[v]
        ks, det, rc, err = run_replay(exe, rp)
        if any(match_known({"findings": [kf]}, prop, k) for k in ks):
            known_hits[kf["id"]] = kf
        elif ks:
            for k in sorted(ks):
                if not match_known(known, prop, k):
                    reported.append((k, rp, det[k]))
    file_cov = coverage_by_file(ctx.tmpdir, exes)
    wall = time.time() - t0
    # ---- evidence ----
    st = ctx.stats
    fault_counts = {k: int(v) for k, v in st.items() if k.startswith("fault_") or k.startswith("workspace_") or k.startswith("garbage_") or k.startswith("preempt") or k.startswith("exit_")}
    probes = {k: (int(v) if float(v).is_integer() else v) for k, v in st.items()}
    evidence = {
        "property_id": prop, "tier": args.tier, "seed": args.seed, "level": P["level"],
        "coverage": {
            "evaluations": int(st["enumerated_runs"]) if "enumerated_runs" in st else ctx.results,
            "distinct_nontrivial": int(st["faults_fired_distinct"]) if "faults_fired_distinct" in st else len(ctx.dkeys),
            "cases": ctx.results,
            "rule": RULES[prop],
            "samples": ctx.samples[:6] or [{"note": "no sample recorded"}],
            "exhaustive": False,
            "runs_per_hour": int(ctx.results / max(sim_wall, 1e-9) * 3600),
            "seeds_per_hour": int(ctx.results / max(sim_wall, 1e-9) * 3600),
            "simulated_time_edges": int(st.get("sim_edges", 0)),
            "simulated_time_note": "simulated clock = instrumented control-flow edges executed by the task x 1 ns; no real clock is read inside a run",
            "faults_fired": fault_counts,
            "reach_probes": probes,
            "distinct_interleavings": len(ctx.dkeys) if prop == "C09" else None,
            "context_switches": int(st.get("preempt_switches", 0)) if "preempt_switches" in st else None,
            "edge_coverage": {v: {"edges_hit_union": file_cov.get(v, {}).get("_union", h), "edges_total": t} for v, (h, t) in ctx.cov.items()},
            "edges_hit_per_source_file": {v: {k: n for k, n in fc.items() if k != "_union"} for v, fc in file_cov.items()},
            "variants": ctx.per_variant,
            "components_real": REAL, "components_replaced": REPLACED,
            "components_stub": ["level-3 BLAS [sdcz]gemm_/[sdcz]trsm_ reference kernels (variant asan-vblas only)"] if any("vblas" in v for v in variants) else [],
            "known_findings_matched": sorted(known_hits),
            "violation_classes_seen": {k: n for k, n in ctx.cand_keys.items()},
        },
        "assumptions": ASSUMPTIONS[prop],
        "wall_s": round(wall, 2),
        "violations": len(reported),
    }
    for k_ in ("distinct_interleavings", "context_switches"):
        if evidence["coverage"][k_] is None:
            del evidence["coverage"][k_]
    if not args.no_evidence:
        os.makedirs(os.path.join(VERIF, "evidence"), exist_ok=True)
        with open(os.path.join(VERIF, "evidence", prop + ".json"), "w") as f:
            json.dump(evidence, f, indent=1)
    shutil.rmtree(ctx.tmpdir, ignore_errors=True)
    for kid, kf in sorted(known_hits.items()):
        print("KNOWN-FINDING: property=%s %s" % (prop, kf["what"]))
    for key, path, detail in reported:
        print("VIOLATION property=%s replay=%s" % (prop, path))
        print("  class: %s" % key)
        print("  " + detail.strip().replace("\n", "\n  ")[:1800])
    log("[%s %s] %d runs, %d distinct non-trivial, %d violation classes, %d known findings, %.1fs (%.0f runs/h)" % (
        prop, args.tier, ctx.results, len(ctx.dkeys), len(reported), len(known_hits), wall, ctx.results / max(sim_wall, 1e-9) * 3600))
    return 1 if reported else 0


RULES = {
    "C06": "one seeded call history per run (2-12 expert-driver calls over one sparsity pattern, drawn by a state machine that respects the documented Fact preconditions, with storage/allocation faults); distinct = (pattern hash, op-kind sequence, value-change sequence, memory model); non-trivial = at least one re-use step (SamePattern / SameRowPerm / FACTORED) executed",
    "C07": "one input (matrix, options, tunings) per run executed under a no-growth reference and K seeded storage schedules (fill estimate, library vs caller workspace length/alignment, transient ENOMEM on a growth request, heap/workspace garbage); distinct = (matrix hash, schedule signature incl. expansions seen); non-trivial = at least one non-reference schedule completed that grew storage in flight or used a caller workspace",
    "C08": "per sampled case every workspace length (step 4 bytes, both alignments) and every failing position among the factor-growth requests (once and persisting) is enumerated; evaluations = enumerated runs; distinct = (case hash, fault) pairs whose fault actually fired (space ran out / k-th request reached)",
    "C09": "2-4 real threads each running its own plan under the seeded serialising scheduler (pre-emption at basic-block edges), compared bit-for-bit with the solo execution, plus single-task history-independence runs under dirty heap garbage; distinct = interleaving hash; non-trivial = >= 2 tasks and >= 1 context switch inside library code",
    "C19": "one seeded API lifecycle per run (create/order/factor/solve/refine/re-factor/query/destroy incl. singular, out-of-space and query exits) under ASan+UBSan with allocation ledger and garbage differential; distinct = (op-kind sequence, exit classes, memory model); non-trivial = >= 1 factorisation",
    "C20": "seeded factor/solve*/free sequences over 1-3 interleaved handles per simulated Fortran client (1-3 clients) against the C simple driver as reference model; distinct = (clients, handles, op sequence); non-trivial = >= 2 solves on one handle or >= 2 live handles",
}
ASSUMPTIONS = {
    p: ["sampling, not proof: a clean batch is evidence only",
        "seams are taken at compile/link time (USER_MALLOC/USER_FREE/USER_ABORT macros, sp_ienv and SuperLU_timer_ replaced); superlu_malloc/superlu_free bodies are by-passed",
        "oracle tolerances are the componentwise bounds of Higham (Thm 9.3/9.4) with >= 4x margin; bit-identity is demanded only between executions of the same algorithm on the same data",
        "libc/libm are not instrumented: no pre-emption point and no sanitizer visibility inside them"]
    for p in PROPS
}

if __name__ == "__main__":
    sys.exit(main())

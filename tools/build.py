#!/usr/bin/env python3
"""Build the instrumented SuperLU library variants and the simulator binary.

Everything is rebuilt from /repo's *current working tree* (content-hash based
incremental build), objects live in /verif/build/<variant>/.  No file in /repo
is written.  Usage:  build.py [--all] [variant ...]   (default: asan tsan)
"""
import hashlib, os, subprocess, sys, glob, json, shutil, time
from concurrent.futures import ThreadPoolExecutor

VERIF = os.path.dirname(os.path.dirname(os.path.abspath(__file__)))
REPO = os.environ.get("VERIF_REPO", "/repo")
BUILD = os.path.join(VERIF, "build")
SIM = os.path.join(VERIF, "sim")

SEAMS = [
    "-include", os.path.join(SIM, "sim_hooks.h"),
    "-DUSER_MALLOC(size)=sim_malloc((size),__FILE__,__func__,__LINE__)",
    "-DUSER_FREE(addr)=sim_free((addr),__FILE__,__func__,__LINE__)",
    "-DUSER_ABORT(msg)=sim_abort(msg)",
]
COV = ["-fsanitize-coverage=trace-pc-guard"]
COMMON_C = ["-g", "-fno-omit-frame-pointer", "-w", "-DNDEBUG", "-DPRNTlevel=0", "-DDEBUGlevel=0", "-DAdd_"]

VARIANTS = {
    # name: (cc, cxx, opt+sanitizer flags, extra lib defines, link flags)
    "asan": dict(san=["-O1", "-fsanitize=address,undefined", "-fno-sanitize-recover=undefined"], defs=[], vblas=False),
    "tsan": dict(san=["-O1", "-fsanitize=thread"], defs=[], vblas=False),
    "asan-vblas": dict(san=["-O1", "-fsanitize=address,undefined", "-fno-sanitize-recover=undefined"], defs=["-DUSE_VENDOR_BLAS"], vblas=True),
    "asan-i64": dict(san=["-O1", "-fsanitize=address,undefined", "-fno-sanitize-recover=undefined"], defs=["-DXSDK_INDEX_SIZE=64"], vblas=False),
    "tsan-i64": dict(san=["-O1", "-fsanitize=thread"], defs=["-DXSDK_INDEX_SIZE=64"], vblas=False),
    "dbg": dict(san=["-O0", "-fsanitize=address"], defs=[], vblas=False),
    "plain": dict(san=["-O2"], defs=[], vblas=False, nocov=True),
    # source-line coverage of the library under the simulator (tools/linecov.sh); not used by any registered check
    "cov": dict(san=["-O0", "-fprofile-instr-generate", "-fcoverage-mapping"], defs=[], vblas=False),
}

EXCLUDE_SRC = {"sp_ienv.c", "superlu_timer.c"}


def sh(cmd, **kw):
    r = subprocess.run(cmd, stdout=subprocess.PIPE, stderr=subprocess.STDOUT, text=True, **kw)
    return r.returncode, r.stdout


def file_hash(path, cache={}):
    st = os.stat(path)
    key = (path, st.st_mtime_ns, st.st_size)
    if key not in cache:
        with open(path, "rb") as f:
            cache[key] = hashlib.sha1(f.read()).hexdigest()
    return cache[key]


def lib_sources():
    srcs = []
    for f in sorted(glob.glob(os.path.join(REPO, "SRC", "*.c"))):
        if os.path.basename(f) not in EXCLUDE_SRC:
            srcs.append(f)
    srcs += sorted(glob.glob(os.path.join(REPO, "CBLAS", "*.c")))
    srcs += sorted(glob.glob(os.path.join(REPO, "FORTRAN", "c_fortran_*.c")))
    return srcs


def headers_hash(dirs):
    h = hashlib.sha1()
    for d in dirs:
        for f in sorted(glob.glob(os.path.join(d, "*.h")) + glob.glob(os.path.join(d, "*.hpp"))):
            h.update(f.encode())
            h.update(file_hash(f).encode())
    return h.hexdigest()


def compile_many(jobs, nproc=16):
    """jobs: list of (cmd, obj, stampkey). Returns number compiled; raises on error."""
    todo = []
    for cmd, obj, key in jobs:
        stamp = obj + ".stamp"
        if os.path.exists(obj) and os.path.exists(stamp) and open(stamp).read() == key:
            continue
        todo.append((cmd, obj, key))
    errs = []

    def run(j):
        cmd, obj, key = j
        rc, out = sh(cmd)
        if rc != 0:
            errs.append((cmd, out))
            return
        with open(obj + ".stamp", "w") as f:
            f.write(key)

    with ThreadPoolExecutor(nproc) as ex:
        list(ex.map(run, todo))
    if errs:
        for cmd, out in errs[:3]:
            sys.stderr.write("BUILD ERROR: %s\n%s\n" % (" ".join(cmd), out))
        raise SystemExit(2)
    return len(todo)


def build_variant(name, verbose=True):
    t0 = time.time()
    v = VARIANTS[name]
    out = os.path.join(BUILD, name)
    os.makedirs(os.path.join(out, "lib"), exist_ok=True)
    os.makedirs(os.path.join(out, "sim"), exist_ok=True)
    cc, cxx = "clang", "clang++"
    incs = ["-I" + os.path.join(REPO, "SRC"), "-I" + os.path.join(SIM, "cfg")]
    hh_lib = headers_hash([os.path.join(REPO, "SRC"), os.path.join(REPO, "CBLAS"), os.path.join(SIM, "cfg")]) + file_hash(os.path.join(SIM, "sim_hooks.h"))
    hh = headers_hash([os.path.join(REPO, "SRC"), os.path.join(REPO, "CBLAS"), SIM, os.path.join(SIM, "cfg")])
    cov = [] if v.get("nocov") else COV
    libflags = v["san"] + cov + COMMON_C + SEAMS + v["defs"] + incs
    jobs = []
    objs = []
    for src in lib_sources():
        rel = os.path.relpath(src, REPO).replace("/", "__")
        obj = os.path.join(out, "lib", rel[:-2] + ".o")
        key = hashlib.sha1((" ".join(libflags) + file_hash(src) + hh_lib).encode()).hexdigest()
        jobs.append(([cc] + libflags + ["-c", src, "-o", obj], obj, key))
        objs.append(obj)
    # remove objects of deleted sources
    keep = set(objs)
    for f in glob.glob(os.path.join(out, "lib", "*.o")):
        if f not in keep:
            os.remove(f)
            if os.path.exists(f + ".stamp"):
                os.remove(f + ".stamp")
    # harness (not coverage-instrumented: no pre-emption points inside the simulator itself)
    simflags = v["san"] + ["-g", "-fno-omit-frame-pointer", "-std=c++17", "-Wall", "-Wno-unused-function",
                           "-Wno-deprecated-declarations", "-DSIM_VARIANT=\"%s\"" % name] + v["defs"] + incs + ["-I" + SIM]
    simobjs = []
    for src in sorted(glob.glob(os.path.join(SIM, "*.cpp"))):
        obj = os.path.join(out, "sim", os.path.basename(src)[:-4] + ".o")
        fl = simflags
        if src.endswith("_nosan.cpp"):
            fl = [f for f in simflags if f != "-fsanitize=thread"]
        key = hashlib.sha1((" ".join(fl) + file_hash(src) + hh).encode()).hexdigest()
        jobs.append(([cxx] + fl + ["-c", src, "-o", obj], obj, key))
        simobjs.append(obj)
    cflags_h = v["san"] + ["-g", "-fno-omit-frame-pointer", "-w"] + v["defs"] + incs
    for src in sorted(glob.glob(os.path.join(SIM, "*.c"))):
        obj = os.path.join(out, "sim", os.path.basename(src)[:-2] + "_c.o")
        key = hashlib.sha1((" ".join(cflags_h) + file_hash(src) + hh).encode()).hexdigest()
        jobs.append(([cc] + cflags_h + ["-c", src, "-o", obj], obj, key))
        simobjs.append(obj)
    n = compile_many(jobs)
    exe = os.path.join(out, "simworker")
    linkkey = hashlib.sha1("".join(open(o + ".stamp").read() for o in objs + simobjs).encode()).hexdigest()
    lstamp = exe + ".stamp"
    if n or not os.path.exists(exe) or not os.path.exists(lstamp) or open(lstamp).read() != linkkey:
        lib = os.path.join(out, "libsuperlu_sim.a")
        if os.path.exists(lib):
            os.remove(lib)
        rc, o = sh(["ar", "rcs", lib] + objs)
        if rc:
            sys.stderr.write(o); raise SystemExit(2)
        tmpexe = exe + ".new.%d" % os.getpid()
        cmd = [cxx] + v["san"] + cov + ["-g"] + simobjs + [lib, "-lm", "-lpthread", "-o", tmpexe]
        rc, o = sh(cmd)
        if rc:
            sys.stderr.write("LINK ERROR: %s\n%s\n" % (" ".join(cmd), o)); raise SystemExit(2)
        os.replace(tmpexe, exe)  # atomic: running sweeps keep the old inode
        open(lstamp, "w").write(linkkey)
    if verbose:
        sys.stderr.write("[build] %s: %d compiled, %.1fs\n" % (name, n, time.time() - t0))
    return exe


def main():
    args = [a for a in sys.argv[1:] if not a.startswith("--")]
    if "--all" in sys.argv:
        args = ["asan", "tsan", "asan-vblas", "asan-i64", "tsan-i64"]
    if not args:
        args = ["asan", "tsan"]
    for a in args:
        build_variant(a)


if __name__ == "__main__":
    main()

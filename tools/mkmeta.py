#!/usr/bin/env python3
# mkmeta.py <id> <property> <change> <needs> <caught_by> [origin-note] : write /verif/seeded/<id>/meta.json
import json, sys
i, prop, change, needs, caught = sys.argv[1:6]
note = sys.argv[6] if len(sys.argv) > 6 else ""
meta = {"id": i, "breaks_property": prop, "change": change, "needs_to_manifest": needs,
        "origin": "independent sub-agent (" + note + "given only the property text, a theme and the list of ideas already used; worked in its own scratch git worktree of /repo, nothing from /verif)",
        "confirmed": "patch applies to the pinned tree, library builds, 24/24 ctest tests pass with the change, run_demo.sh exits non-zero with the change and 0 without it (scratch worktree, tools/seedtest.sh); then applied to /repo, quick check run, reverted",
        "caught_by": caught}
json.dump(meta, open("/verif/seeded/%s/meta.json" % i, "w"), indent=1)

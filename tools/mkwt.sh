#!/bin/bash
# mkwt.sh <dir> : scratch git worktree of /repo (HEAD) with a configured and built _build, for seeded-change sub-agents
set -e
D=$1
git -C /repo worktree add --detach -f $D HEAD > /dev/null 2>&1
cd $D
cmake -G Ninja -S . -B _build -DCMAKE_BUILD_TYPE=RelWithDebInfo -DCMAKE_C_FLAGS=-Wno-error -DTPL_BLAS_LIBRARIES=/usr/lib/x86_64-linux-gnu/libopenblas.so -Denable_fortran=OFF > /dev/null
cmake --build _build > /dev/null 2>&1
mkdir -p seeds
ctest --test-dir _build -j8 2>&1 | grep "tests passed"

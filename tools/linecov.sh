#!/bin/bash
# linecov.sh [cases-per-property-and-seed] : source-line coverage of the library under the simulator.
# Builds the `cov` variant (clang -fprofile-instr-generate -fcoverage-mapping on top of the usual seams), runs four seeds of
# every workload and prints, per library file, the lines/functions that ran.  Diagnostic only: no registered check uses it.
# Scratch output goes to /var/tmp/verif-cov and is removed at the end.
set -u
N=${1:-400}
VERIF=$(cd "$(dirname "$0")/.." && pwd)
OUT=/var/tmp/verif-cov
rm -rf $OUT; mkdir -p $OUT
cd $VERIF
python3 tools/build.py cov || exit 2
for P in C06 C07 C08 C09 C19 C20; do
  for k in 0 1 2 3; do
    n=$N; [ $P = C08 ] && n=$((N / 30 + 1))
    LLVM_PROFILE_FILE=$OUT/$P-$k-%p.profraw timeout 1800 build/cov/simworker $P --seed $((k + 1)) --from $((k * n)) --count $n --outdir $OUT > $OUT/$P-$k.log 2>&1 &
  done
done
wait
llvm-profdata-14 merge -o $OUT/all.profdata $OUT/*.profraw || exit 2
llvm-cov-14 export build/cov/simworker -instr-profile=$OUT/all.profdata -summary-only /repo/SRC /repo/FORTRAN 2>/dev/null > $OUT/sum.json
python3 - <<EOF
import json
d = json.load(open("$OUT/sum.json"))
rows = []
for f in d["data"][0]["files"]:
    s = f["summary"]
    if s["lines"]["count"] == 0: continue
    rows.append((s["lines"]["percent"], f["filename"].replace("/repo/", ""), s["lines"]["covered"], s["lines"]["count"], s["functions"]["covered"], s["functions"]["count"]))
rows.sort()
for r in rows: print("%5.1f%% %-32s lines %5d/%5d  functions %2d/%2d" % r)
t = d["data"][0]["totals"]
print("TOTAL lines %d/%d (%.1f%%), functions %d/%d" % (t["lines"]["covered"], t["lines"]["count"], t["lines"]["percent"], t["functions"]["covered"], t["functions"]["count"]))
EOF
[ -n "${KEEP_COV:-}" ] || rm -rf $OUT build/cov

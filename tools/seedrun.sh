#!/bin/bash
# seedrun.sh <seeded id> <check> [<check> ...] : apply a stored seeded change to /repo, run the quick checks, undo it straight afterwards
ID=$1; shift
cd /verif
git -C /repo apply /verif/seeded/$ID/patch.diff || { echo "PATCH DOES NOT APPLY TO /repo"; exit 2; }
for C in "$@"; do
  python3 tools/check.py $C --tier quick --no-evidence > /tmp/seed-check-$C.log 2>&1; RC=$?
  K=$(grep -m3 "class:" /tmp/seed-check-$C.log | tr '\n' ';' | cut -c1-300)
  echo "$ID check $C exit $RC  $K"
done
git -C /repo checkout -- .
rm -f /verif/replays/C??-2026*.json

#!/usr/bin/env python3
"""selftest.py determinism [--runs N] [props...]   : event-log hashes of every run must not depend on how runs are spread
                                                      over processes (two sweeps with different chunking / worker counts),
                                                      every case executed twice in-process (--twice) and, for multi-task
                                                      cases, once more from its recorded schedule.
   selftest.py sensitivity [ids...]                : apply every seeded change (seeded/<id>/patch.diff, mutants/*.patch) to
                                                      /repo, run the quick check of the property it breaks, expect exit 1, undo.
"""
import json, os, subprocess, sys, glob, time
from concurrent.futures import ThreadPoolExecutor

VERIF = os.path.dirname(os.path.dirname(os.path.abspath(__file__)))
sys.path.insert(0, os.path.join(VERIF, "tools"))
import build as B  # noqa

PROPS = ["C06", "C07", "C08", "C09", "C19", "C20"]
VARIANT = {"C06": ["asan"], "C07": ["asan"], "C08": ["asan"], "C09": ["tsan", "asan"], "C19": ["asan"], "C20": ["asan", "tsan"]}


def sweep(exe, prop, seed, runs, chunk, workers):
    def one(start):
        out = {}; idx = start; end = min(start + chunk, runs)
        while idx < end:
            cmd = [exe, prop, "--seed", str(seed), "--from", str(idx), "--count", str(end - idx), "--twice", "--outdir", "/var/tmp"]
            try:
                p = subprocess.run(cmd, stdout=subprocess.PIPE, stderr=subprocess.PIPE, text=True, cwd=VERIF, timeout=600)
                text = p.stdout
            except subprocess.TimeoutExpired as e:
                text = (e.stdout or b"").decode() if isinstance(e.stdout, bytes) else (e.stdout or "")
            started = None; done = idx - 1
            for line in text.splitlines():
                if line.startswith("S "):
                    started = int(line.split()[1])
                elif line.startswith("R "):
                    _, i, js = line.split(" ", 2)
                    j = json.loads(js)
                    out[int(i)] = (j["hash"], [v["key"] for v in j["violations"]]); done = int(i)
            if started is not None and started > done:
                out[started] = ("died", [])   # a run that kills its process (recorded finding): same in every sweep
                idx = started + 1
            else:
                idx = done + 1
                if idx < end:
                    break
        return out
    res = {}
    with ThreadPoolExecutor(workers) as ex:
        for d in ex.map(one, range(0, runs, chunk)):
            res.update(d)
    return res


def determinism(props, runs):
    bad = 0
    for prop in props:
        n = runs if prop != "C08" else max(8, runs // 40)
        for v in VARIANT[prop]:
            exe = B.build_variant(v, verbose=False)
            t0 = time.time()
            a = sweep(exe, prop, 424242, n, 7 if prop != "C08" else 1, 16)
            b = sweep(exe, prop, 424242, n, 50 if prop != "C08" else 3, 3)
            diff = [i for i in sorted(set(a) | set(b)) if a.get(i, ("?",))[0] != b.get(i, ("?",))[0]]
            mach = [i for i in a if any(k.startswith("MACHINERY") for k in a[i][1])] + [i for i in b if any(k.startswith("MACHINERY") for k in b[i][1])]
            print("%s/%s: %d runs x 2 sweeps (x2-3 executions each): %d hash differences, %d in-process nondeterminism/replay divergences, %.0fs" % (prop, v, n, len(diff), len(mach), time.time() - t0))
            if diff or mach:
                bad += 1
                print("   differing runs:", diff[:10], "machinery:", mach[:10])
    return 1 if bad else 0


def sensitivity(ids):
    items = []
    for d in sorted(glob.glob(os.path.join(VERIF, "seeded", "*"))):
        if os.path.exists(os.path.join(d, "patch.diff")):
            meta = json.load(open(os.path.join(d, "meta.json")))
            if meta.get("expected_miss"):
                continue  # outside the claimed properties (see meta.json / DESIGN section 8)
            # "checks": the checks that catch it when that is not the check of the property it names
            for prop in meta.get("checks", [meta["breaks_property"]]):
                items.append((os.path.basename(d), os.path.join(d, "patch.diff"), prop))
    for p in sorted(glob.glob(os.path.join(VERIF, "mutants", "*.patch"))):
        name = os.path.basename(p)[:-6]
        items.append((name, p, name.split("-")[0].upper()))
    if ids:
        items = [it for it in items if it[0] in ids]
    st = subprocess.run(["git", "-C", B.REPO, "status", "--porcelain", "--untracked-files=no"], stdout=subprocess.PIPE, text=True).stdout.strip()
    if st:
        print("refusing: %s has uncommitted changes" % B.REPO); return 2
    missed = 0
    for name, patch, prop in items:
        r = subprocess.run(["git", "-C", B.REPO, "apply", patch])
        if r.returncode:
            print("%-28s patch does not apply" % name); missed += 1; continue
        try:
            t0 = time.time()
            p = subprocess.run([sys.executable, os.path.join(VERIF, "tools", "check.py"), prop, "--tier", "quick", "--no-evidence"], stdout=subprocess.PIPE, stderr=subprocess.PIPE, text=True, cwd=VERIF)
            classes = [l.strip()[7:] for l in p.stdout.splitlines() if l.strip().startswith("class:")]
            print("%-28s %s exit %d in %3.0fs  %s" % (name, prop, p.returncode, time.time() - t0, "; ".join(classes[:3])[:160]))
            if p.returncode != 1:
                missed += 1
        finally:
            subprocess.run(["git", "-C", B.REPO, "checkout", "--", "."])
            for f in glob.glob(os.path.join(VERIF, "replays", "C??-*.json")):
                os.remove(f)
    print("missed: %d of %d" % (missed, len(items)))
    return 1 if missed else 0


if __name__ == "__main__":
    if len(sys.argv) < 2:
        print(__doc__); sys.exit(2)
    if sys.argv[1] == "determinism":
        runs = 600; args = sys.argv[2:]
        if "--runs" in args:
            runs = int(args[args.index("--runs") + 1]); del args[args.index("--runs"):args.index("--runs") + 2]
        sys.exit(determinism(args or PROPS, runs))
    elif sys.argv[1] == "sensitivity":
        sys.exit(sensitivity(sys.argv[2:]))

#!/bin/bash
# seedtest.sh <PROP> <worktree> <seed subdir name> <seeded id> : confirm a seeded change in its scratch worktree, store it under
# /verif/seeded/<id>/, then apply it to /repo, run the property's quick check against it and undo it straight afterwards.
set -u
PROP=$1; WT=$2; M=$3; ID=$4; CHECKS=${5:-$PROP}
S=$WT/seeds/$M
cd $WT || exit 2
git checkout -q -- . 2>/dev/null
git apply $S/patch.diff || { echo "PATCH DOES NOT APPLY"; exit 2; }
cmake --build _build > /tmp/seed-build.log 2>&1 || { echo "BUILD FAILS"; git checkout -q -- .; exit 2; }
T=$(ctest --test-dir _build -j8 2>&1 | grep "tests passed")
echo "with change: $T"
( bash $S/run_demo.sh > /tmp/seed-demo-with.log 2>&1 ); RW=$?
git checkout -q -- .
cmake --build _build > /tmp/seed-build.log 2>&1
( bash $S/run_demo.sh > /tmp/seed-demo-without.log 2>&1 ); RO=$?
echo "demo exit with change: $RW   without: $RO"
mkdir -p /verif/seeded/$ID
cp $S/patch.diff $S/README.txt /verif/seeded/$ID/ 2>/dev/null
cp $S/demo.c $S/run_demo.sh /verif/seeded/$ID/ 2>/dev/null
cp $S/*.c $S/*.sh $S/*.h /verif/seeded/$ID/ 2>/dev/null
cd /verif
git -C /repo apply /verif/seeded/$ID/patch.diff || { echo "PATCH DOES NOT APPLY TO /repo"; exit 2; }
RES=""
for C in $CHECKS; do
  python3 tools/check.py $C --tier quick --no-evidence > /tmp/seed-check-$C.log 2>&1; RC=$?
  K=$(grep -m3 "class:" /tmp/seed-check-$C.log | tr '\n' ';' | cut -c1-300)
  echo "check $C exit $RC  $K"
  RES="$RES $C:$RC"
done
git -C /repo checkout -- .
git -C /repo status --short | grep -v _build
rm -f /verif/replays/$PROP-*.json /verif/replays/C??-2026*.json
echo "RESULT $ID tests=[$T] demo_with=$RW demo_without=$RO checks=$RES"

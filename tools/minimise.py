"""Greedy + ddmin minimiser over explicit case files (JSON).

Every reduction step is kept only if a fresh-process replay still shows the *same violation class* (key).
Reductions: drop environments / operations / tasks / faults / schedule slices, shrink matrices (delete a
row+column, delete an off-transversal entry, round values), reset tunings and options to defaults.
"""
import copy, json, os, time

DEFAULT_TUNING = [20, 10, 200, 200, 100, 30, 10]


class Budget:
    def __init__(self, seconds, max_runs=400):
        self.t_end = time.time() + seconds
        self.runs = 0
        self.max_runs = max_runs

    def ok(self):
        return time.time() < self.t_end and self.runs < self.max_runs


def _test(case, exe, key, run_replay, tmp, budget):
    if not budget.ok():
        return False
    budget.runs += 1
    with open(tmp, "w") as f:
        json.dump(case, f)
    keys, det, rc, err = run_replay(exe, tmp, timeout=60)
    return key in keys


def ddmin_list(case, getlist, setlist, test, keep_prefix=0):
    """Remove elements of a list (after keep_prefix) while test(case) stays true."""
    items = getlist(case)
    n = 2
    changed = False
    while len(items) - keep_prefix >= 1:
        body = items[keep_prefix:]
        size = max(1, len(body) // n)
        removed_any = False
        i = 0
        while i < len(body):
            cand_body = body[:i] + body[i + size:]
            cand = copy.deepcopy(case)
            setlist(cand, items[:keep_prefix] + cand_body)
            if test(cand):
                setlist(case, items[:keep_prefix] + cand_body)
                items = getlist(case)
                body = items[keep_prefix:]
                removed_any = True
                changed = True
            else:
                i += size
        if not removed_any:
            if size == 1:
                break
            n = min(len(body), n * 2)
        else:
            n = max(2, n - 1)
    return changed


def structurally_nonsingular(mat):
    """Perfect matching of columns to rows (augmenting paths): shrinking must not drift into structurally singular matrices,
    which trigger legitimate singular returns and would be mistaken for the violation being minimised."""
    n, m = mat["n"], mat["m"]
    colptr, rowind = mat["colptr"], mat["rowind"]
    match_row = [-1] * m

    def try_col(j, seen):
        for p in range(colptr[j], colptr[j + 1]):
            r = rowind[p]
            if seen[r]:
                continue
            seen[r] = True
            if match_row[r] < 0 or try_col(match_row[r], seen):
                match_row[r] = j
                return True
        return False
    import sys
    sys.setrecursionlimit(10000)
    for j in range(n):
        if not try_col(j, [False] * m):
            return False
    return True


def delete_rowcol(mat, k, ops):
    """Delete row k and column k of a square matrix (CSC) and the matching entries of per-op value arrays."""
    n, m = mat["n"], mat["m"]
    if n <= 1 or m != n:
        return None
    keep = []
    colptr, rowind = mat["colptr"], mat["rowind"]
    newptr = [0]
    newrow = []
    for j in range(n):
        if j == k:
            continue
        for p in range(colptr[j], colptr[j + 1]):
            r = rowind[p]
            if r == k:
                continue
            keep.append(p)
            newrow.append(r - 1 if r > k else r)
        newptr.append(len(newrow))
    # every column must keep at least one entry
    for j in range(n - 1):
        if newptr[j + 1] == newptr[j]:
            return None
    nm = dict(mat)
    nm["n"] = n - 1; nm["m"] = m - 1; nm["colptr"] = newptr; nm["rowind"] = newrow
    nm["re"] = [mat["re"][p] for p in keep]
    if "im" in mat:
        nm["im"] = [mat["im"][p] for p in keep]
    newops = []
    for o in ops:
        o = dict(o)
        if "re" in o and len(o["re"]) == len(mat["re"]):
            o["re"] = [o["re"][p] for p in keep]
            if "im" in o:
                o["im"] = [o["im"][p] for p in keep]
        newops.append(o)
    return nm, newops


def delete_entry(mat, p, ops):
    colptr = mat["colptr"]
    n = mat["n"]
    j = max(c for c in range(n) if colptr[c] <= p)
    if colptr[j + 1] - colptr[j] <= 1:
        return None
    nm = dict(mat)
    nm["colptr"] = [c if i <= j else c - 1 for i, c in enumerate(colptr)]
    nm["rowind"] = mat["rowind"][:p] + mat["rowind"][p + 1:]
    nm["re"] = mat["re"][:p] + mat["re"][p + 1:]
    if "im" in mat:
        nm["im"] = mat["im"][:p] + mat["im"][p + 1:]
    newops = []
    for o in ops:
        o = dict(o)
        if "re" in o and len(o["re"]) == len(mat["re"]):
            o["re"] = o["re"][:p] + o["re"][p + 1:]
            if "im" in o:
                o["im"] = o["im"][:p] + o["im"][p + 1:]
        newops.append(o)
    return nm, newops


def minimise(exe, path, key, run_replay, budget_s=90, log=lambda *a: None):
    case = json.load(open(path))
    tmp = path + ".min.tmp"
    budget = Budget(budget_s)
    test = lambda c: _test(c, exe, key, run_replay, tmp, budget)
    size0 = len(json.dumps(case))
    try:
        # 1. environments (keep the reference env 0)
        if case.get("envs"):
            ddmin_list(case, lambda c: c["envs"], lambda c, v: c.__setitem__("envs", v), test, keep_prefix=1)
        # 2. tasks
        if len(case.get("tasks", [])) > 1:
            ddmin_list(case, lambda c: c["tasks"], lambda c, v: c.__setitem__("tasks", v), test, keep_prefix=0)
            if "schedule" in case:
                pass
        # 3. operations of every task
        # (the closing destroy / bfree operations stay: without them every block the caller was handed looks like a leak and a
        # repaired tree could not replay the file cleanly)
        def removable(c, ti):
            return [o for o in c["tasks"][ti]["ops"] if o.get("kind") not in ("destroy", "bfree")]
        def set_removable(c, v, ti):
            # rebuild in original relative order: removable ops that survive, protected ops in place
            res = []; surv = list(v); si = 0
            for o in c["tasks"][ti]["ops"]:
                if o.get("kind") in ("destroy", "bfree"): res.append(o)
                elif si < len(surv) and o == surv[si]: res.append(o); si += 1
            c["tasks"][ti]["ops"] = res
        for ti in range(len(case["tasks"])):
            ddmin_list(case, lambda c, ti=ti: removable(c, ti), lambda c, v, ti=ti: set_removable(c, v, ti), test)
        # 4. faults
        for ti in range(len(case["tasks"])):
            for oi in range(len(case["tasks"][ti]["ops"])):
                if case["tasks"][ti]["ops"][oi].get("faults"):
                    ddmin_list(case, lambda c, ti=ti, oi=oi: c["tasks"][ti]["ops"][oi]["faults"],
                               lambda c, v, ti=ti, oi=oi: c["tasks"][ti]["ops"][oi].__setitem__("faults", v), test)
        for ei in range(len(case.get("envs", []))):
            if case["envs"][ei].get("faults"):
                ddmin_list(case, lambda c, ei=ei: c["envs"][ei]["faults"], lambda c, v, ei=ei: c["envs"][ei].__setitem__("faults", v), test)
        # 5. schedule slices
        if case.get("schedule"):
            ddmin_list(case, lambda c: c["schedule"], lambda c, v: c.__setitem__("schedule", v), test)
        # 6. matrices: delete row+column / entries
        for ti in range(len(case["tasks"])):
            t = case["tasks"][ti]
            for mi in range(len(t.get("mats", []))):
                progress = True
                while progress and budget.ok():
                    progress = False
                    n = case["tasks"][ti]["mats"][mi]["n"]
                    for k in range(n - 1, -1, -1):
                        if not budget.ok():
                            break
                        r = delete_rowcol(case["tasks"][ti]["mats"][mi], k, case["tasks"][ti]["ops"])
                        if not r or not structurally_nonsingular(r[0]):
                            continue
                        cand = copy.deepcopy(case)
                        cand["tasks"][ti]["mats"][mi], cand["tasks"][ti]["ops"] = r
                        if test(cand):
                            case = cand
                            progress = True
                            break
                # entries
                p = len(case["tasks"][ti]["mats"][mi]["rowind"]) - 1
                while p >= 0 and budget.ok():
                    r = delete_entry(case["tasks"][ti]["mats"][mi], p, case["tasks"][ti]["ops"])
                    if r and structurally_nonsingular(r[0]):
                        cand = copy.deepcopy(case)
                        cand["tasks"][ti]["mats"][mi], cand["tasks"][ti]["ops"] = r
                        if test(cand):
                            case = cand
                    p -= 1
        # 7. tunings back to defaults, one by one
        for ti in range(len(case["tasks"])):
            for k in range(7):
                if case["tasks"][ti]["tuning"][k] != DEFAULT_TUNING[k] and budget.ok():
                    cand = copy.deepcopy(case)
                    cand["tasks"][ti]["tuning"][k] = DEFAULT_TUNING[k]
                    if test(cand):
                        case = cand
        # 8. options of every op back to defaults (drop the key = default)
        for ti in range(len(case["tasks"])):
            for oi in range(len(case["tasks"][ti]["ops"])):
                for fld in list(case["tasks"][ti]["ops"][oi].keys()):
                    if fld in ("kind", "re", "im", "faults", "mat", "slot", "handle", "fact", "lwork"):
                        continue
                    if not budget.ok():
                        break
                    cand = copy.deepcopy(case)
                    del cand["tasks"][ti]["ops"][oi][fld]
                    if test(cand):
                        case = cand
        # 9. garbage -> zero
        for ti in range(len(case["tasks"])):
            if case["tasks"][ti].get("garbage") and budget.ok():
                cand = copy.deepcopy(case)
                cand["tasks"][ti]["garbage"] = 0
                if test(cand):
                    case = cand
    finally:
        if os.path.exists(tmp):
            os.remove(tmp)
    case["note"] = (case.get("note", "") + " [minimised: %d replays, %d -> %d bytes]" % (budget.runs, size0, len(json.dumps(case)))).strip()
    with open(path, "w") as f:
        json.dump(case, f, indent=1)
    log("[minimise] %s: %d replays, %d -> %d bytes" % (os.path.basename(path), budget.runs, size0, len(json.dumps(case))))
